/* Deterministic entropy seam: LD_PRELOADed so that getrandom()/getentropy()
 * (the source of std's HashMap RandomState keys, rand's ThreadRng seed and
 * tokio's internal seeds) becomes a pure function of a per-thread seed that the
 * simulator sets as the first action of every run thread. */
#define _GNU_SOURCE
#include <stddef.h>
#include <stdint.h>
#include <sys/types.h>

static __thread uint64_t st = 0x9E3779B97F4A7C15ULL;
static __thread uint64_t draws = 0;

static uint64_t next(void) {
    uint64_t z = (st += 0x9E3779B97F4A7C15ULL);
    z = (z ^ (z >> 30)) * 0xBF58476D1CE4E5B9ULL;
    z = (z ^ (z >> 27)) * 0x94D049BB133111EBULL;
    return z ^ (z >> 31);
}

void verif_entropy_seed(uint64_t s) { st = s; draws = 0; }
uint64_t verif_entropy_draws(void) { return draws; }
/* magic probe so the harness can tell whether the preload is active */
uint64_t verif_entropy_active(void) { return 0x7665726966ULL; }

static void fill(unsigned char *p, size_t n) {
    draws++;
    while (n) {
        uint64_t v = next();
        size_t k = n < 8 ? n : 8;
        for (size_t i = 0; i < k; i++) p[i] = (unsigned char)(v >> (8 * i));
        p += k; n -= k;
    }
}

ssize_t getrandom(void *buf, size_t len, unsigned int flags) {
    (void)flags; fill((unsigned char *)buf, len); return (ssize_t)len;
}
int getentropy(void *buf, size_t len) { fill((unsigned char *)buf, len); return 0; }
