//! `Choices` — the one integer. Every decision of a run is drawn here and
//! recorded on the choice tape; replay reads the tape back. Neutral value = 0.

#[derive(Clone, Debug, PartialEq, Eq)]
pub struct TapeEntry {
    pub label: String,
    pub bound: u64,
    pub value: u64,
}

#[derive(Clone)]
pub struct Rng(u64);

impl Rng {
    pub fn new(seed: u64) -> Self {
        Rng(seed)
    }
    #[inline]
    pub fn next(&mut self) -> u64 {
        // SplitMix64
        self.0 = self.0.wrapping_add(0x9E3779B97F4A7C15);
        let mut z = self.0;
        z = (z ^ (z >> 30)).wrapping_mul(0xBF58476D1CE4E5B9);
        z = (z ^ (z >> 27)).wrapping_mul(0x94D049BB133111EB);
        z ^ (z >> 31)
    }
}

pub fn mix(a: u64, b: u64) -> u64 {
    let mut r = Rng::new(a ^ b.rotate_left(32) ^ 0xD6E8FEB86659FD93);
    r.next() ^ b
}

pub fn hash_str(s: &str) -> u64 {
    let mut h: u64 = 0xcbf29ce484222325;
    for b in s.bytes() {
        h ^= b as u64;
        h = h.wrapping_mul(0x100000001b3);
    }
    h
}

enum Mode {
    Search(Rng),
    Replay { values: Vec<u64>, pos: usize },
}

pub struct Choices {
    mode: Mode,
    record: bool,
    pub tape: Vec<(&'static str, u64, u64)>,
    /// values only (cheap) — always kept so a failing run can be re-run as a replay
    pub values: Vec<u64>,
    pub nonneutral: u64,
    pub draws: u64,
    pub max_draws: u64,
}

impl Choices {
    pub fn search(seed: u64) -> Self {
        Choices {
            mode: Mode::Search(Rng::new(seed)),
            record: false,
            tape: Vec::new(),
            values: Vec::new(),
            nonneutral: 0,
            draws: 0,
            max_draws: 50_000_000,
        }
    }
    pub fn replay(values: Vec<u64>) -> Self {
        Choices {
            mode: Mode::Replay { values, pos: 0 },
            record: true,
            tape: Vec::new(),
            values: Vec::new(),
            nonneutral: 0,
            draws: 0,
            max_draws: 50_000_000,
        }
    }
    pub fn with_labels(mut self, on: bool) -> Self {
        self.record = on;
        self
    }

    /// uniform-ish value in [0, bound); bound 0 or 1 → 0 (no tape entry)
    #[inline]
    pub fn draw(&mut self, label: &'static str, bound: u64) -> u64 {
        if bound <= 1 {
            return 0;
        }
        self.draws += 1;
        let v = if self.draws > self.max_draws {
            0
        } else {
            match &mut self.mode {
                Mode::Search(r) => r.next() % bound,
                Mode::Replay { values, pos } => {
                    let v = values.get(*pos).copied().unwrap_or(0);
                    *pos += 1;
                    if v >= bound { 0 } else { v }
                }
            }
        };
        if v != 0 {
            self.nonneutral += 1;
        }
        self.values.push(v);
        if self.record {
            self.tape.push((label, bound, v));
        }
        v
    }

    /// true with probability num/den; neutral (0) = false
    #[inline]
    pub fn chance(&mut self, label: &'static str, num: u64, den: u64) -> bool {
        if num == 0 {
            return false;
        }
        let v = self.draw(label, den);
        v >= 1 && v <= num
    }

    pub fn range(&mut self, label: &'static str, lo: u64, hi_incl: u64) -> u64 {
        lo + self.draw(label, hi_incl - lo + 1)
    }

    pub fn pick<'a, T>(&mut self, label: &'static str, xs: &'a [T]) -> &'a T {
        &xs[self.draw(label, xs.len() as u64) as usize]
    }

    pub fn bytes(&mut self, label: &'static str, len: usize) -> Vec<u8> {
        // one draw per 7 bytes keeps tapes short
        let mut out = Vec::with_capacity(len);
        while out.len() < len {
            let v = self.draw(label, 1 << 56);
            for i in 0..7 {
                if out.len() < len {
                    out.push((v >> (8 * i)) as u8);
                }
            }
        }
        out
    }

    pub fn u64(&mut self, label: &'static str) -> u64 {
        let a = self.draw(label, 1 << 32);
        let b = self.draw(label, 1 << 32);
        (a << 32) | b
    }

    pub fn exhausted(&self) -> bool {
        match &self.mode {
            Mode::Search(_) => false,
            Mode::Replay { values, pos } => *pos >= values.len(),
        }
    }

    pub fn tape_entries(&self) -> Vec<TapeEntry> {
        self.tape
            .iter()
            .map(|(l, b, v)| TapeEntry { label: l.to_string(), bound: *b, value: *v })
            .collect()
    }
}
