use super::*;
use serde_json::{json, Value};
use std::cell::RefCell;
use std::collections::{BTreeMap, HashMap, HashSet};
use std::sync::atomic::{AtomicBool, AtomicU64, Ordering};
use std::sync::{Arc, Mutex};
use std::time::Instant;

thread_local! {
    static LAST_PANIC: RefCell<Option<(String, String)>> = const { RefCell::new(None) };
}

pub fn install_panic_hook() {
    let print = std::env::var("VERIF_PANIC_PRINT").is_ok();
    let default = std::panic::take_hook();
    std::panic::set_hook(Box::new(move |info| {
        let loc = info
            .location()
            .map(|l| {
                let f = l.file();
                // strip to repo-relative path where possible
                // repo-relative for pallas sources, crate-relative for registry / toolchain sources, so that a
                // signature does not carry host-specific directories
                let f = f.strip_prefix("/repo/").unwrap_or_else(|| {
                    if let Some(i) = f.find("/registry/src/") {
                        let rest = &f[i + "/registry/src/".len()..];
                        rest.find('/').map(|j| &rest[j + 1..]).unwrap_or(rest)
                    } else if let Some(i) = f.find("/pallas-") {
                        &f[i + 1..]
                    } else if let Some(i) = f.find("/library/") {
                        &f[i + 1..]
                    } else {
                        f
                    }
                });
                f.to_string()
            })
            .unwrap_or_else(|| "?".into());
        let msg = if let Some(s) = info.payload().downcast_ref::<&str>() {
            s.to_string()
        } else if let Some(s) = info.payload().downcast_ref::<String>() {
            s.clone()
        } else {
            "<non-string panic>".to_string()
        };
        let line = info.location().map(|l| l.line()).unwrap_or(0);
        LAST_PANIC.with(|p| {
            let mut p = p.borrow_mut();
            if p.is_none() {
                *p = Some((loc.clone(), format!("{} (line {})", msg, line)));
            }
        });
        if print {
            default(info);
        }
    }));
}

/// (file, message) of the first panic seen on this thread since the last take
pub fn take_panic() -> Option<(String, String)> {
    LAST_PANIC.with(|p| p.borrow_mut().take())
}

pub fn panic_violation(file: &str, msg: &str) -> Violation {
    // drop the "(line N)" suffix from the discriminator, keep it in the message
    let base = msg.rsplit_once(" (line ").map(|x| x.0).unwrap_or(msg);
    Violation::new("panic", format!("{}|{}", file, normalise(base)), format!("panic at {}: {}", file, msg))
}

#[derive(Clone)]
pub struct BatchSpec {
    pub scenario: Arc<dyn Scenario>,
    pub quick: u64,
    pub thorough: u64,
    pub faulty: bool,
}

pub fn batch(s: impl Scenario + 'static, quick: u64, thorough: u64, faulty: bool) -> BatchSpec {
    BatchSpec { scenario: Arc::new(s), quick, thorough, faulty }
}

pub struct CheckDef {
    pub prop: &'static str,
    pub level: &'static str,
    pub batches: Vec<BatchSpec>,
    pub rule: &'static str,
    pub real: Vec<&'static str>,
    pub stub: Vec<&'static str>,
    pub assumptions: Vec<&'static str>,
    /// counters that must be > 0 over the whole check, else harness error
    pub required: Vec<&'static str>,
    pub env_nondeterminism: &'static str,
}

#[derive(Clone)]
pub enum Source {
    Seed(u64),
    Tape { values: Vec<u64>, entropy: u64 },
}

pub struct RunOut {
    pub trace_hash: u64,
    pub values: Vec<u64>,
    pub tape: Vec<choices::TapeEntry>,
    pub nonneutral: u64,
    pub progress: bool,
    pub stats: Stats,
    pub known_hits: BTreeMap<String, u64>,
    pub violation: Option<Violation>,
    pub tail: Vec<String>,
    pub draws: u64,
}

pub fn exec_run(
    prop: &'static str,
    sc: &Arc<dyn Scenario>,
    src: Source,
    verbose: bool,
    tolerate: &Arc<HashSet<String>>,
) -> RunOut {
    let sc = sc.clone();
    let tolerate = tolerate.clone();
    let h = std::thread::Builder::new()
        .stack_size(sc.stack_size())
        .spawn(move || {
            let (ch, entropy) = match src {
                Source::Seed(s) => (Choices::search(s).with_labels(verbose), s),
                Source::Tape { values, entropy } => (Choices::replay(values).with_labels(verbose), entropy),
            };
            entropy_seed(entropy);
            let _ = take_panic();
            let mut cx = RunCx {
                ch,
                tr: Trace::new(verbose),
                st: Stats::default(),
                prop,
                tolerate,
                known_hits: BTreeMap::new(),
            };
            let r = std::panic::catch_unwind(std::panic::AssertUnwindSafe(|| sc.run(&mut cx)));
            let violation = match r {
                Ok(Ok(())) => None,
                Ok(Err(v)) => Some(v),
                Err(_) => {
                    let (f, m) = take_panic().unwrap_or(("?".into(), "?".into()));
                    Some(panic_violation(&f, &m))
                }
            };
            RunOut {
                trace_hash: cx.tr.hash,
                tape: cx.ch.tape_entries(),
                nonneutral: cx.ch.nonneutral,
                draws: cx.ch.draws,
                values: std::mem::take(&mut cx.ch.values),
                progress: cx.st.progress,
                tail: cx.tr.tail(),
                stats: cx.st,
                known_hits: cx.known_hits,
                violation,
            }
        })
        .expect("spawn run thread");
    match h.join() {
        Ok(o) => o,
        Err(_) => RunOut {
            trace_hash: 0,
            values: vec![],
            tape: vec![],
            nonneutral: 0,
            progress: false,
            stats: Stats::default(),
            known_hits: BTreeMap::new(),
            violation: Some(Violation::new("panic", "runner|thread died", "run thread died outside catch_unwind")),
            tail: vec![],
            draws: 0,
        },
    }
}

pub fn run_seed(base: u64, prop: &str, scenario: &str, idx: u64) -> u64 {
    mix(mix(base, hash_str(&format!("{}/{}", prop, scenario))), idx)
}

#[derive(Clone, Debug)]
pub struct Known {
    pub property: String,
    pub status: String,
    pub signature: String,
    pub what: String,
}

pub fn load_known(root: &str) -> Vec<Known> {
    let p = format!("{}/known_findings.json", root);
    let Ok(s) = std::fs::read_to_string(&p) else { return vec![] };
    let v: Value = serde_json::from_str(&s).unwrap_or_else(|e| {
        eprintln!("HARNESS-ERROR: {} unreadable: {}", p, e);
        std::process::exit(2)
    });
    let mut out = vec![];
    for f in v["findings"].as_array().cloned().unwrap_or_default() {
        out.push(Known {
            property: f["property"].as_str().unwrap_or("").to_string(),
            status: f["status"].as_str().unwrap_or("").to_string(),
            signature: f["signature"].as_str().unwrap_or("").to_string(),
            what: f["what"].as_str().unwrap_or("").to_string(),
        });
    }
    out
}

pub struct Opts {
    pub tier: String,
    pub seed: u64,
    pub workers: usize,
    pub root: String,
    /// where evidence/ and replays/ are written (VERIF_OUT; default = root)
    pub out: String,
    pub scale: f64,
    pub wall_budget_s: f64,
    pub only_scenario: Option<String>,
}

struct Found {
    batch: usize,
    idx: u64,
    violation: Violation,
    values: Vec<u64>,
    entropy: u64,
}

pub struct Minimised {
    pub values: Vec<u64>,
    pub reruns: u64,
}

pub fn minimise(
    prop: &'static str,
    sc: &Arc<dyn Scenario>,
    values: Vec<u64>,
    entropy: u64,
    sig: &str,
    tolerate: &Arc<HashSet<String>>,
) -> Minimised {
    minimise_budget(prop, sc, values, entropy, sig, tolerate, 2000, 60.0)
}

#[allow(clippy::too_many_arguments)]
pub fn minimise_budget(
    prop: &'static str,
    sc: &Arc<dyn Scenario>,
    values: Vec<u64>,
    entropy: u64,
    sig: &str,
    tolerate: &Arc<HashSet<String>>,
    max_reruns: u64,
    max_secs: f64,
) -> Minimised {
    let start = Instant::now();
    let mut reruns = 0u64;
    let mut fails = |vals: &Vec<u64>, reruns: &mut u64| -> bool {
        *reruns += 1;
        let o = exec_run(prop, sc, Source::Tape { values: vals.clone(), entropy }, false, tolerate);
        o.violation.map(|v| v.signature(prop) == sig).unwrap_or(false)
    };
    let budget = |reruns: u64| reruns < max_reruns && start.elapsed().as_secs_f64() < max_secs;
    let mut cur = values;
    // sanity: the tape itself must reproduce
    if !fails(&cur, &mut reruns) {
        return Minimised { values: cur, reruns };
    }
    // 1. shortest failing prefix (binary search; not monotone in general, so verify)
    let (mut lo, mut hi) = (0usize, cur.len());
    while lo < hi && budget(reruns) {
        let mid = (lo + hi) / 2;
        let cand = cur[..mid].to_vec();
        if fails(&cand, &mut reruns) {
            hi = mid;
        } else {
            lo = mid + 1;
        }
    }
    if hi < cur.len() {
        let cand = cur[..hi].to_vec();
        if fails(&cand, &mut reruns) {
            cur = cand;
        }
    }
    // strip trailing zeros (neutral by construction)
    while cur.last() == Some(&0) {
        cur.pop();
    }
    // 2. delete blocks
    let mut size = (cur.len() / 2).max(1);
    loop {
        let mut i = 0;
        while i + size <= cur.len() && budget(reruns) {
            let mut cand = cur.clone();
            cand.drain(i..i + size);
            if fails(&cand, &mut reruns) {
                cur = cand;
            } else {
                i += size;
            }
        }
        if size == 1 || !budget(reruns) {
            break;
        }
        size /= 2;
    }
    // 3. zero, then halve, each value
    for i in 0..cur.len() {
        if !budget(reruns) {
            break;
        }
        if cur[i] == 0 {
            continue;
        }
        let mut cand = cur.clone();
        cand[i] = 0;
        if fails(&cand, &mut reruns) {
            cur = cand;
            continue;
        }
        let mut v = cur[i];
        while v > 1 && budget(reruns) {
            let mut cand = cur.clone();
            cand[i] = v / 2;
            if fails(&cand, &mut reruns) {
                v /= 2;
                cur = cand;
            } else {
                break;
            }
        }
    }
    while cur.last() == Some(&0) {
        cur.pop();
    }
    Minimised { values: cur, reruns }
}

fn write_replay(
    root: &str,
    prop: &str,
    scenario: &str,
    base_seed: u64,
    idx: u64,
    entropy: u64,
    out: &RunOut,
    sig: &str,
    reruns: u64,
    original_len: usize,
) -> String {
    let h = hash_str(sig);
    let dir = format!("{}/replays", root);
    let _ = std::fs::create_dir_all(&dir);
    let path = format!("{}/{}-{:016x}.json", dir, prop, h);
    let tape: Vec<Value> = out.tape.iter().map(|t| json!([t.label, t.bound, t.value])).collect();
    let v = json!({
        "property": prop,
        "scenario": scenario,
        "seed": base_seed,
        "run_index": idx,
        "entropy_seed": entropy,
        "values": out.values,
        "tape": tape,
        "signature": sig,
        "message": out.violation.as_ref().map(|v| v.message.clone()).unwrap_or_default(),
        "trace_hash": format!("{:016x}", out.trace_hash),
        "trace_tail": out.tail,
        "minimiser": {"reruns": reruns, "original_choices": original_len, "minimised_choices": out.values.len()},
    });
    std::fs::write(&path, serde_json::to_string_pretty(&v).unwrap()).expect("write replay");
    path
}

pub fn replay_file(def: &CheckDef, path: &str, root: &str) -> i32 {
    let s = std::fs::read_to_string(path).unwrap_or_else(|e| {
        eprintln!("HARNESS-ERROR: cannot read {}: {}", path, e);
        std::process::exit(2)
    });
    let v: Value = serde_json::from_str(&s).expect("replay json");
    let scen = v["scenario"].as_str().unwrap_or("");
    let Some(b) = def.batches.iter().find(|b| b.scenario.name() == scen) else {
        eprintln!("HARNESS-ERROR: scenario {} not in check {}", scen, def.prop);
        return 2;
    };
    let values: Vec<u64> = v["values"].as_array().unwrap().iter().map(|x| x.as_u64().unwrap()).collect();
    let entropy = v["entropy_seed"].as_u64().unwrap();
    let sig = v["signature"].as_str().unwrap_or("").to_string();
    // replay with nothing tolerated except *other* known findings of this property
    let known = load_known(root);
    let tol: HashSet<String> = known
        .iter()
        .filter(|k| k.status == "known" && k.signature != sig)
        .map(|k| k.signature.clone())
        .collect();
    let o = exec_run(def.prop, &b.scenario, Source::Tape { values, entropy }, true, &Arc::new(tol));
    for l in &o.tail {
        println!("{}", l);
    }
    match &o.violation {
        Some(vi) => {
            let got = vi.signature(def.prop);
            println!("replayed: {}", vi.message);
            println!("signature={} trace_hash={:016x}", got, o.trace_hash);
            let want_hash = v["trace_hash"].as_str().unwrap_or("");
            if got == sig && format!("{:016x}", o.trace_hash) == want_hash {
                println!("VIOLATION property={} replay={}", def.prop, path);
                1
            } else {
                eprintln!("HARNESS-ERROR: replay diverged (want {} {})", sig, want_hash);
                2
            }
        }
        None => {
            println!("replay did not reproduce a violation (trace_hash={:016x})", o.trace_hash);
            if sig.is_empty() { 0 } else { 2 }
        }
    }
}

struct Partial {
    stats: Stats,
    distinct: HashSet<u64>,
    all_hashes: HashSet<u64>,
    found: Vec<Found>,
    known_first: BTreeMap<String, (usize, u64)>,
    known_hits: BTreeMap<String, u64>,
    guard: HashMap<(usize, u64), (u64, u64)>,
    runs: u64,
    nontrivial_runs: u64,
    draws: u64,
    /// order-independent digest of (batch, run index, trace hash, tape hash) over every run
    digest: u64,
}

pub fn run_check(def: &CheckDef, opts: &Opts) -> i32 {
    let t0 = Instant::now();
    let prop = def.prop;
    if !entropy_shim_active() {
        eprintln!("HARNESS-ERROR: entropy shim not active (run through /verif/check)");
        return 2;
    }
    let known = load_known(&opts.root);
    let tolerate: Arc<HashSet<String>> = Arc::new(
        known.iter().filter(|k| k.property == prop && k.status == "known").map(|k| k.signature.clone()).collect(),
    );
    let thorough = opts.tier == "thorough";
    let guard_n: u64 = if thorough { 1024 } else { 64 };

    // work list
    let mut plan: Vec<(usize, u64)> = vec![]; // (batch, runs)
    for (bi, b) in def.batches.iter().enumerate() {
        if let Some(only) = &opts.only_scenario {
            if b.scenario.name() != only {
                continue;
            }
        }
        let n = if thorough { b.thorough } else { b.quick };
        let n = ((n as f64) * opts.scale).ceil() as u64;
        plan.push((bi, n.max(1)));
    }
    let total: u64 = plan.iter().map(|p| p.1).sum();
    // flat index space: cumulative
    let mut cum = vec![];
    let mut acc = 0u64;
    for (bi, n) in &plan {
        cum.push((acc, *bi, *n));
        acc += n;
    }
    let next = AtomicU64::new(0);
    let stop = AtomicBool::new(false);
    let merged: Mutex<Vec<Partial>> = Mutex::new(vec![]);
    let chunk: u64 = 16;

    let crumbs: Option<String> = std::env::var("VERIF_BREADCRUMBS").ok();
    let crumbs = &crumbs;
    {
    let (next, stop, merged, cum, tolerate) = (&next, &stop, &merged, &cum, &tolerate);
    std::thread::scope(|s| {
        for _w in 0..opts.workers {
            s.spawn(move || {
                let mut p = Partial {
                    stats: Stats::default(),
                    distinct: HashSet::new(),
                    all_hashes: HashSet::new(),
                    found: vec![],
                    known_first: BTreeMap::new(),
                    known_hits: BTreeMap::new(),
                    guard: HashMap::new(),
                    runs: 0,
                    nontrivial_runs: 0,
                    draws: 0,
                    digest: 0,
                };
                loop {
                    if stop.load(Ordering::Relaxed) {
                        break;
                    }
                    let start = next.fetch_add(chunk, Ordering::Relaxed);
                    if start >= total {
                        break;
                    }
                    for flat in start..(start + chunk).min(total) {
                        let (base, bi, _n) = *cum.iter().rev().find(|c| c.0 <= flat).unwrap();
                        let idx = flat - base;
                        let b = &def.batches[bi];
                        let seed = run_seed(opts.seed, prop, b.scenario.name(), idx);
                        if let Some(dir) = &crumbs {
                            let _ = std::fs::write(format!("{}/w{}", dir, _w), format!("{} {}\n", b.scenario.name(), idx));
                        }
                        let o = exec_run(prop, &b.scenario, Source::Seed(seed), false, &tolerate);
                        p.runs += 1;
                        p.draws += o.draws;
                        p.stats.merge(&o.stats, 2_000_000);
                        p.stats.add(if b.faulty { "runs.faulty" } else { "runs.fault_free" }, 1);
                        p.all_hashes.insert(o.trace_hash);
                        p.digest = p.digest.wrapping_add(mix(mix(bi as u64, idx), mix(o.trace_hash, hash_vals(&o.values))));
                        if o.nonneutral > 0 && o.progress {
                            p.nontrivial_runs += 1;
                            p.distinct.insert(o.trace_hash);
                        }
                        if idx < guard_n {
                            p.guard.insert((bi, idx), (o.trace_hash, hash_vals(&o.values)));
                        }
                        for (k, n) in &o.known_hits {
                            *p.known_hits.entry(k.clone()).or_insert(0) += n;
                            let e = p.known_first.entry(k.clone()).or_insert((bi, idx));
                            if (bi, idx) < *e {
                                *e = (bi, idx);
                            }
                        }
                        if let Some(v) = o.violation {
                            p.found.push(Found { batch: bi, idx, violation: v, values: o.values, entropy: seed });
                        }
                    }
                    if t0.elapsed().as_secs_f64() > opts.wall_budget_s {
                        stop.store(true, Ordering::Relaxed);
                    }
                }
                merged.lock().unwrap().push(p);
            });
        }
    });

    }
    let parts = merged.into_inner().unwrap();
    let mut stats = Stats::default();
    let mut distinct: HashSet<u64> = HashSet::new();
    let mut all_hashes: HashSet<u64> = HashSet::new();
    let mut found: Vec<Found> = vec![];
    let mut known_first: BTreeMap<String, (usize, u64)> = BTreeMap::new();
    let mut known_hits: BTreeMap<String, u64> = BTreeMap::new();
    let mut guard: HashMap<(usize, u64), (u64, u64)> = HashMap::new();
    let (mut runs, mut nontrivial_runs, mut draws) = (0u64, 0u64, 0u64);
    let mut digest = 0u64;
    for p in parts {
        digest = digest.wrapping_add(p.digest);
        stats.merge(&p.stats, 8_000_000);
        distinct.extend(p.distinct);
        all_hashes.extend(p.all_hashes);
        found.extend(p.found);
        for (k, v) in p.known_first {
            let e = known_first.entry(k).or_insert(v);
            if v < *e {
                *e = v;
            }
        }
        for (k, v) in p.known_hits {
            *known_hits.entry(k).or_insert(0) += v;
        }
        guard.extend(p.guard);
        runs += p.runs;
        nontrivial_runs += p.nontrivial_runs;
        draws += p.draws;
    }
    let truncated = runs < total;
    found.sort_by_key(|f| (f.batch, f.idx));

    // determinism guard: re-run the first guard_n indices of every batch
    let mut guard_compared = 0u64;
    let mut guard_mismatch = 0u64;
    {
        let keys: Vec<(usize, u64)> = {
            let mut k: Vec<_> = guard.keys().cloned().collect();
            k.sort();
            k
        };
        let pos = AtomicU64::new(0);
        let mism = AtomicU64::new(0);
        let cmp = AtomicU64::new(0);
        std::thread::scope(|s| {
            for _ in 0..opts.workers {
                s.spawn(|| loop {
                    let i = pos.fetch_add(1, Ordering::Relaxed) as usize;
                    if i >= keys.len() {
                        break;
                    }
                    let (bi, idx) = keys[i];
                    let b = &def.batches[bi];
                    let seed = run_seed(opts.seed, prop, b.scenario.name(), idx);
                    let o = exec_run(prop, &b.scenario, Source::Seed(seed), false, &tolerate);
                    cmp.fetch_add(1, Ordering::Relaxed);
                    if (o.trace_hash, hash_vals(&o.values)) != guard[&(bi, idx)] {
                        mism.fetch_add(1, Ordering::Relaxed);
                        eprintln!("determinism mismatch: scenario={} run={}", b.scenario.name(), idx);
                    }
                });
            }
        });
        guard_compared = cmp.load(Ordering::Relaxed);
        guard_mismatch = mism.load(Ordering::Relaxed);
    }

    // violations: one per signature, lowest (batch, idx)
    let mut exit = 0;
    let mut reported: Vec<Value> = vec![];
    let mut seen_sig: HashSet<String> = HashSet::new();
    let fixed: HashMap<String, String> =
        known.iter().filter(|k| k.status == "fixed").map(|k| (k.signature.clone(), k.what.clone())).collect();
    let mut n_viol = 0u64;
    for f in &found {
        let sig = f.violation.signature(prop);
        if !seen_sig.insert(sig.clone()) {
            continue;
        }
        if tolerate.contains(&sig) {
            // a known finding that ends the run (panic): cannot be stepped over
            let e = known_first.entry(sig.clone()).or_insert((f.batch, f.idx));
            if (f.batch, f.idx) < *e {
                *e = (f.batch, f.idx);
            }
            let n = found.iter().filter(|g| g.violation.signature(prop) == sig).count() as u64;
            *known_hits.entry(sig.clone()).or_insert(0) += n;
            continue;
        }
        if seen_sig.len() > 12 {
            println!("(more distinct signatures not minimised)");
            break;
        }
        n_viol += 1;
        let b = &def.batches[f.batch];
        let m = minimise(prop, &b.scenario, f.values.clone(), f.entropy, &sig, &tolerate);
        let fin = exec_run(prop, &b.scenario, Source::Tape { values: m.values.clone(), entropy: f.entropy }, true, &tolerate);
        let ok = fin.violation.as_ref().map(|v| v.signature(prop) == sig).unwrap_or(false);
        let path = if ok {
            write_replay(&opts.out, prop, b.scenario.name(), opts.seed, f.idx, f.entropy, &fin, &sig, m.reruns, f.values.len())
        } else {
            // could not reproduce from the tape → harness nondeterminism
            eprintln!("HARNESS-ERROR: violation {} did not reproduce from its tape (tape run gave {:?}; {} -> {} values)", sig, fin.violation.as_ref().map(|v| v.signature(prop)), f.values.len(), m.values.len());
            exit = 2;
            continue;
        };
        println!("violation: {}", f.violation.message);
        println!("signature: {}", sig);
        if fixed.contains_key(&sig) {
            println!("note: this signature is recorded as FIXED in known_findings.json — it has returned");
        }
        println!("VIOLATION property={} replay={}", prop, path);
        reported.push(json!({"signature": sig, "message": f.violation.message, "replay": path,
                             "scenario": b.scenario.name(), "run_index": f.idx}));
        if exit == 0 {
            exit = 1;
        }
    }

    // known findings that were hit: produce a replay each and the KNOWN-FINDING line
    let mut known_out: Vec<Value> = vec![];
    for (sig, (bi, idx)) in &known_first {
        let b = &def.batches[*bi];
        let seed = run_seed(opts.seed, prop, b.scenario.name(), *idx);
        let mut tol2: HashSet<String> = (*tolerate).clone();
        tol2.remove(sig);
        let tol2 = Arc::new(tol2);
        let o = exec_run(prop, &b.scenario, Source::Seed(seed), false, &tol2);
        let what = known.iter().find(|k| &k.signature == sig).map(|k| k.what.clone()).unwrap_or_default();
        let mut path = String::from("-");
        if let Some(v) = &o.violation {
            if &v.signature(prop) == sig {
                // a known finding only needs a readable replay, not the smallest one
                let m = minimise_budget(prop, &b.scenario, o.values.clone(), seed, sig, &tol2, 250, 8.0);
                let fin = exec_run(prop, &b.scenario, Source::Tape { values: m.values.clone(), entropy: seed }, true, &tol2);
                if fin.violation.as_ref().map(|v| &v.signature(prop) == sig).unwrap_or(false) {
                    path = write_replay(&opts.out, prop, b.scenario.name(), opts.seed, *idx, seed, &fin, sig, m.reruns, o.values.len());
                }
            }
        }
        println!("KNOWN-FINDING: property={} {} [signature {}; hits {}; replay {}]", prop, what, sig, known_hits[sig], path);
        known_out.push(json!({"signature": sig, "hits": known_hits[sig], "replay": path}));
    }
    // listed findings this run did not reach are named as well, so that the output accounts for every entry
    for k in known.iter().filter(|k| k.property == prop && k.status == "known" && !known_first.contains_key(&k.signature)) {
        println!("KNOWN-FINDING: property={} {} [signature {}; hits 0 in this run]", prop, k.what, k.signature);
        known_out.push(json!({"signature": k.signature, "hits": 0, "replay": "-"}));
    }
    // known findings that are panics end the run and therefore arrive as violations
    // with a tolerated signature: handled above by `report`; panics cannot be stepped over,
    // so they are matched here instead.

    if guard_mismatch > 0 {
        eprintln!("HARNESS-ERROR: {} determinism mismatches", guard_mismatch);
        exit = 2;
    }
    let mut missing = vec![];
    if !truncated && opts.only_scenario.is_none() {
        for r in &def.required {
            if stats.counters.get(*r).copied().unwrap_or(0) == 0 {
                missing.push(r.to_string());
            }
        }
    }
    if !missing.is_empty() && exit == 0 {
        eprintln!("HARNESS-ERROR: reach probes at zero: {:?}", missing);
        exit = 2;
    }

    // samples: for up to four batches, the most eventful of run indices 0..12, re-run verbosely
    let mut samples: Vec<Value> = vec![];
    for (bi, n) in plan.iter().take(4) {
        let b = &def.batches[*bi];
        let mut best: Option<(u64, RunOut)> = None;
        for idx in 0..(*n).min(12) {
            let seed = run_seed(opts.seed, prop, b.scenario.name(), idx);
            let o = exec_run(prop, &b.scenario, Source::Seed(seed), true, &tolerate);
            if best.as_ref().map(|(_, x)| o.tail.len() > x.tail.len()).unwrap_or(true) {
                best = Some((idx, o));
            }
        }
        let Some((idx, o)) = best else { continue };
        let mut lines = o.tail.clone();
        if lines.len() > 40 {
            lines.truncate(40);
            lines.push("…".into());
        }
        let tape: Vec<String> = o.tape.iter().take(24).map(|t| format!("{}<{}={}", t.label, t.bound, t.value)).collect();
        samples.push(json!({"scenario": b.scenario.name(), "run_index": idx, "choices": o.draws,
            "tape_head": tape, "trace": lines, "trace_hash": format!("{:016x}", o.trace_hash)}));
    }

    let wall = t0.elapsed().as_secs_f64();
    let mut faults = serde_json::Map::new();
    let mut probes = serde_json::Map::new();
    let mut other = serde_json::Map::new();
    for (k, v) in &stats.counters {
        if let Some(f) = k.strip_prefix("fault.") {
            faults.insert(f.to_string(), json!(v));
        } else if let Some(f) = k.strip_prefix("probe.") {
            probes.insert(f.to_string(), json!(v));
        } else {
            other.insert(k.clone(), json!(v));
        }
    }
    let per_batch: Vec<Value> = plan
        .iter()
        .map(|(bi, n)| json!({"scenario": def.batches[*bi].scenario.name(), "runs_planned": n, "faulty": def.batches[*bi].faulty}))
        .collect();
    let ev = json!({
        "property_id": prop,
        "tier": opts.tier,
        "seed": opts.seed,
        "level": def.level,
        "wall_s": wall,
        "violations": n_viol,
        "assumptions": def.assumptions,
        "coverage": {
            "evaluations": runs,
            "distinct_nontrivial": distinct.len(),
            "rule": def.rule,
            "samples": samples,
            "runs_per_hour": (runs as f64 / wall.max(1e-9) * 3600.0) as u64,
            "seeds": {"base": opts.seed, "derivation": "mix(mix(base, fnv(property/scenario)), run_index)", "run_indices": per_batch},
            "truncated": truncated,
            "nontrivial_runs": nontrivial_runs,
            "distinct_interleavings_all": all_hashes.len(),
            "choices_drawn": draws,
            "steps": stats.steps,
            "sim_time_total_s": stats.sim_time_ns as f64 / 1e9,
            "fault_kinds_fired": faults,
            "reach_probes": probes,
            "counters": other,
            "abstract_states_reached": stats.states.len(),
            "components": {"real": def.real, "stub": def.stub},
            "environment_nondeterminism": def.env_nondeterminism,
            "determinism": {"runs_compared": guard_compared, "mismatches": guard_mismatch,
                            "all_runs_digest": format!("{:016x}", digest),
                            "digest_note": "order-independent sum over every run of hash(batch, run index, trace hash, tape hash); equal digests from two processes (any worker counts) mean every run was identical"},
            "known_findings_hit": known_out,
            "violations_reported": reported,
            "workers": opts.workers,
        }
    });
    let evdir = format!("{}/evidence", opts.out);
    let _ = std::fs::create_dir_all(&evdir);
    if opts.only_scenario.is_none() {
        std::fs::write(format!("{}/{}.json", evdir, prop), serde_json::to_string_pretty(&ev).unwrap()).expect("write evidence");
    }
    println!(
        "{} tier={} seed={} runs={} distinct_nontrivial={} violations={} known={} digest={:016x} wall={:.1}s exit={}",
        prop, opts.tier, opts.seed, runs, distinct.len(), n_viol, known_first.len(), digest, wall, exit
    );
    exit
}

fn hash_vals(v: &[u64]) -> u64 {
    let mut h: u64 = 0xcbf29ce484222325;
    for x in v {
        h ^= *x;
        h = h.wrapping_mul(0x100000001b3);
    }
    h ^ (v.len() as u64)
}


/// run exactly one (scenario, run index) — used by the supervisor to attribute an abort
pub fn run_single(def: &CheckDef, scenario: &str, idx: u64, base_seed: u64) -> i32 {
    let Some(b) = def.batches.iter().find(|b| b.scenario.name() == scenario) else { return 2 };
    let seed = run_seed(base_seed, def.prop, scenario, idx);
    let o = exec_run(def.prop, &b.scenario, Source::Seed(seed), true, &Arc::new(HashSet::new()));
    match o.violation {
        Some(v) => {
            println!("single run: {}", v.message);
            1
        }
        None => 0,
    }
}
