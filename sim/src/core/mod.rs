//! Shared simulator core: choices/tape, trace, stats, runner, minimiser,
//! replay files, known findings, evidence writer.

pub mod choices;
pub mod runner;

pub use choices::{hash_str, mix, Choices, Rng};
pub use runner::*;

use std::collections::{BTreeMap, HashSet};

pub const TRACE_TAIL: usize = 120;

pub struct Trace {
    pub hash: u64,
    pub seq: u64,
    pub verbose: bool,
    pub lines: Vec<String>,
}

impl Trace {
    pub fn new(verbose: bool) -> Self {
        Trace { hash: 0xcbf29ce484222325, seq: 0, verbose, lines: Vec::new() }
    }
    #[inline]
    fn mixin(&mut self, v: u64) {
        self.hash ^= v;
        self.hash = self.hash.wrapping_mul(0x100000001b3);
        self.hash ^= self.hash >> 29;
    }
    /// One record of the event trace: hashed always, kept as text when verbose.
    #[inline]
    pub fn ev(&mut self, kind: &'static str, vals: &[u64]) {
        self.seq += 1;
        let mut k: u64 = 0;
        for b in kind.bytes() {
            k = k.wrapping_mul(131).wrapping_add(b as u64);
        }
        self.mixin(k);
        for v in vals {
            self.mixin(*v);
        }
        if self.verbose {
            let s = format!("#{} {} {:?}", self.seq, kind, vals);
            self.lines.push(s);
        }
    }
    /// Human detail, verbose only; never affects the hash.
    #[inline]
    pub fn note(&mut self, f: impl FnOnce() -> String) {
        if self.verbose {
            let s = format!("   . {}", f());
            self.lines.push(s);
        }
    }
    pub fn tail(&self) -> Vec<String> {
        let n = self.lines.len();
        self.lines[n.saturating_sub(TRACE_TAIL)..].to_vec()
    }
}

#[derive(Default, Clone)]
pub struct Stats {
    pub counters: BTreeMap<String, u64>,
    pub states: HashSet<u64>,
    pub sim_time_ns: u64,
    pub progress: bool,
    pub steps: u64,
}

impl Stats {
    #[inline]
    pub fn inc(&mut self, k: &str) {
        self.add(k, 1);
    }
    #[inline]
    pub fn add(&mut self, k: &str, n: u64) {
        if let Some(v) = self.counters.get_mut(k) {
            *v += n;
        } else {
            self.counters.insert(k.to_string(), n);
        }
    }
    #[inline]
    pub fn state(&mut self, h: u64) {
        if self.states.len() < 200_000 {
            self.states.insert(h);
        }
    }
    pub fn merge(&mut self, o: &Stats, cap_states: usize) {
        for (k, v) in &o.counters {
            *self.counters.entry(k.clone()).or_insert(0) += v;
        }
        for s in &o.states {
            if self.states.len() >= cap_states {
                break;
            }
            self.states.insert(*s);
        }
        self.sim_time_ns += o.sim_time_ns;
        self.steps += o.steps;
    }
}

#[derive(Clone, Debug)]
pub struct Violation {
    pub class: String,
    pub disc: String,
    pub message: String,
}

impl Violation {
    pub fn new(class: &str, disc: impl Into<String>, message: impl Into<String>) -> Self {
        Violation { class: class.to_string(), disc: disc.into(), message: message.into() }
    }
    pub fn signature(&self, prop: &str) -> String {
        format!("{}|{}|{}", prop, self.class, self.disc)
    }
}

pub struct RunCx {
    pub ch: Choices,
    pub tr: Trace,
    pub st: Stats,
    pub prop: &'static str,
    /// signatures of committed known findings the oracle steps over (counted)
    pub tolerate: std::sync::Arc<HashSet<String>>,
    pub known_hits: BTreeMap<String, u64>,
}

impl RunCx {
    /// Report a violation. Returns Err (stop the run) unless the signature is a
    /// committed known finding, in which case it is counted and the run goes on.
    pub fn report(&mut self, v: Violation) -> Result<(), Violation> {
        let sig = v.signature(self.prop);
        if self.tolerate.contains(&sig) {
            *self.known_hits.entry(sig).or_insert(0) += 1;
            self.tr.note(|| format!("known finding stepped over: {}", v.message));
            Ok(())
        } else {
            Err(v)
        }
    }
}

pub trait Scenario: Sync + Send {
    fn name(&self) -> &'static str;
    fn run(&self, cx: &mut RunCx) -> Result<(), Violation>;
    /// runs that need a bigger/smaller stack may override
    fn stack_size(&self) -> usize {
        8 << 20
    }
    /// the code under test may abort the process (stack overflow, allocation failure):
    /// such checks run in a supervised child process with a breadcrumb per worker
    fn may_abort(&self) -> bool {
        false
    }
}

/// normalise a panic message / location for use in signatures
pub fn normalise(s: &str) -> String {
    let mut out = String::new();
    let mut last_digit = false;
    for c in s.chars().take(160) {
        if c.is_ascii_digit() {
            if !last_digit {
                out.push('#');
            }
            last_digit = true;
        } else {
            last_digit = false;
            out.push(if c == '\n' || c == '|' { ' ' } else { c });
        }
    }
    out
}

unsafe extern "C" {
    fn dlsym(handle: *mut libc::c_void, symbol: *const libc::c_char) -> *mut libc::c_void;
}

type SeedFn = unsafe extern "C" fn(u64);
type ProbeFn = unsafe extern "C" fn() -> u64;

fn sym(name: &[u8]) -> *mut libc::c_void {
    // RTLD_DEFAULT = null on glibc
    unsafe { dlsym(std::ptr::null_mut(), name.as_ptr() as *const libc::c_char) }
}

pub fn entropy_shim_active() -> bool {
    let p = sym(b"verif_entropy_active\0");
    if p.is_null() {
        return false;
    }
    let f: ProbeFn = unsafe { std::mem::transmute(p) };
    unsafe { f() == 0x7665726966 }
}

pub fn entropy_seed(seed: u64) {
    let p = sym(b"verif_entropy_seed\0");
    if !p.is_null() {
        let f: SeedFn = unsafe { std::mem::transmute(p) };
        unsafe { f(seed) }
    }
}
