pub mod cbor;
