pub mod cbor;
pub mod proto;
