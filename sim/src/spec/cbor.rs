//! Strict RFC 8949 well-formedness walker / generic value parser, independent
//! of minicbor. Definite lengths must be satisfied exactly, indefinite items
//! properly terminated, text must be UTF-8, and `parse_one` demands exactly
//! one item with no trailing bytes.

#[derive(Clone, Debug, PartialEq)]
pub enum V {
    U(u64),
    /// negative integer -1 - n
    N(u64),
    B(Vec<u8>),
    T(String),
    A(Vec<Item>),
    M(Vec<(Item, Item)>),
    Tag(u64, Box<Item>),
    Simple(u8),
    F(u64),
    Break,
}

#[derive(Clone, Debug, PartialEq)]
pub struct Item {
    pub v: V,
    pub start: usize,
    pub end: usize,
    pub indefinite: bool,
}

#[derive(Debug, Clone, PartialEq)]
pub enum Err {
    Eof(usize),
    Trailing(usize),
    Reserved(usize),
    BadBreak(usize),
    Utf8(usize),
    Depth(usize),
    ChunkType(usize),
}

pub struct P<'a> {
    b: &'a [u8],
    pos: usize,
}

impl<'a> P<'a> {
    pub fn new(b: &'a [u8]) -> Self {
        P { b, pos: 0 }
    }
    fn u8(&mut self) -> Result<u8, Err> {
        let x = *self.b.get(self.pos).ok_or(Err::Eof(self.pos))?;
        self.pos += 1;
        Ok(x)
    }
    fn take(&mut self, n: u64) -> Result<&'a [u8], Err> {
        let n = usize::try_from(n).map_err(|_| Err::Eof(self.pos))?;
        if self.b.len() - self.pos < n {
            return Err(Err::Eof(self.pos));
        }
        let s = &self.b[self.pos..self.pos + n];
        self.pos += n;
        Ok(s)
    }
    fn arg(&mut self, ai: u8) -> Result<Option<u64>, Err> {
        Ok(Some(match ai {
            0..=23 => ai as u64,
            24 => self.u8()? as u64,
            25 => u16::from_be_bytes(self.take(2)?.try_into().unwrap()) as u64,
            26 => u32::from_be_bytes(self.take(4)?.try_into().unwrap()) as u64,
            27 => u64::from_be_bytes(self.take(8)?.try_into().unwrap()),
            31 => return Ok(None),
            _ => return Err(Err::Reserved(self.pos - 1)),
        }))
    }
    pub fn item(&mut self, depth: usize) -> Result<Item, Err> {
        if depth > 256 {
            return Err(Err::Depth(self.pos));
        }
        let start = self.pos;
        let ib = self.u8()?;
        let (mt, ai) = (ib >> 5, ib & 0x1f);
        let arg = self.arg(ai)?;
        let mut indefinite = false;
        let v = match mt {
            0 => V::U(arg.ok_or(Err::Reserved(start))?),
            1 => V::N(arg.ok_or(Err::Reserved(start))?),
            2 | 3 => {
                let bytes = match arg {
                    Some(n) => self.take(n)?.to_vec(),
                    None => {
                        indefinite = true;
                        let mut acc = vec![];
                        loop {
                            let cs = self.pos;
                            let cb = self.u8()?;
                            if cb == 0xff {
                                break;
                            }
                            if cb >> 5 != mt {
                                return Err(Err::ChunkType(cs));
                            }
                            let n = self.arg(cb & 0x1f)?.ok_or(Err::ChunkType(cs))?;
                            let chunk = self.take(n)?;
                            if mt == 3 && std::str::from_utf8(chunk).is_err() {
                                return Err(Err::Utf8(cs));
                            }
                            acc.extend_from_slice(chunk);
                        }
                        acc
                    }
                };
                if mt == 2 {
                    V::B(bytes)
                } else {
                    V::T(String::from_utf8(bytes).map_err(|_| Err::Utf8(start))?)
                }
            }
            4 => {
                let mut xs = vec![];
                match arg {
                    Some(n) => {
                        for _ in 0..n {
                            let it = self.item(depth + 1)?;
                            if it.v == V::Break {
                                return Err(Err::BadBreak(it.start));
                            }
                            xs.push(it);
                        }
                    }
                    None => {
                        indefinite = true;
                        loop {
                            let it = self.item(depth + 1)?;
                            if it.v == V::Break {
                                break;
                            }
                            xs.push(it);
                        }
                    }
                }
                V::A(xs)
            }
            5 => {
                let mut xs = vec![];
                let mut one = |p: &mut Self, allow_break: bool| -> Result<Option<(Item, Item)>, Err> {
                    let k = p.item(depth + 1)?;
                    if k.v == V::Break {
                        return if allow_break { Ok(None) } else { Err(Err::BadBreak(k.start)) };
                    }
                    let v = p.item(depth + 1)?;
                    if v.v == V::Break {
                        return Err(Err::BadBreak(v.start));
                    }
                    Ok(Some((k, v)))
                };
                match arg {
                    Some(n) => {
                        for _ in 0..n {
                            xs.push(one(self, false)?.unwrap());
                        }
                    }
                    None => {
                        indefinite = true;
                        while let Some(kv) = one(self, true)? {
                            xs.push(kv);
                        }
                    }
                }
                V::M(xs)
            }
            6 => {
                let t = arg.ok_or(Err::Reserved(start))?;
                let inner = self.item(depth + 1)?;
                if inner.v == V::Break {
                    return Err(Err::BadBreak(inner.start));
                }
                V::Tag(t, Box::new(inner))
            }
            _ => match ai {
                0..=23 => V::Simple(ai),
                24 => {
                    let s = arg.unwrap() as u8;
                    if s < 32 {
                        return Err(Err::Reserved(start));
                    }
                    V::Simple(s)
                }
                25 | 26 | 27 => V::F(arg.unwrap()),
                31 => V::Break,
                _ => return Err(Err::Reserved(start)),
            },
        };
        Ok(Item { v, start, end: self.pos, indefinite })
    }
    pub fn pos(&self) -> usize {
        self.pos
    }
}

/// exactly one well-formed item, nothing after it
pub fn parse_one(b: &[u8]) -> Result<Item, Err> {
    let mut p = P::new(b);
    let it = p.item(0)?;
    if it.v == V::Break {
        return Err(Err::BadBreak(0));
    }
    if p.pos != b.len() {
        return Err(Err::Trailing(p.pos));
    }
    Ok(it)
}

/// a sequence of well-formed items covering the input exactly
pub fn parse_seq(b: &[u8]) -> Result<Vec<Item>, Err> {
    let mut p = P::new(b);
    let mut out = vec![];
    while p.pos < b.len() {
        let it = p.item(0)?;
        if it.v == V::Break {
            return Err(Err::BadBreak(it.start));
        }
        out.push(it);
    }
    Ok(out)
}

impl Item {
    pub fn arr(&self) -> Option<&Vec<Item>> {
        match &self.v {
            V::A(x) => Some(x),
            _ => None,
        }
    }
    pub fn map(&self) -> Option<&Vec<(Item, Item)>> {
        match &self.v {
            V::M(x) => Some(x),
            _ => None,
        }
    }
    pub fn bytes(&self) -> Option<&Vec<u8>> {
        match &self.v {
            V::B(x) => Some(x),
            _ => None,
        }
    }
    pub fn uint(&self) -> Option<u64> {
        match &self.v {
            V::U(x) => Some(*x),
            _ => None,
        }
    }
    /// strips any tags
    pub fn untag(&self) -> &Item {
        match &self.v {
            V::Tag(_, i) => i.untag(),
            _ => self,
        }
    }
    pub fn map_get(&self, key: u64) -> Option<&Item> {
        self.map()?.iter().find(|(k, _)| k.uint() == Some(key)).map(|(_, v)| v)
    }
    /// positions of all item heads (for length-field corruption)
    pub fn heads(&self, out: &mut Vec<usize>) {
        out.push(self.start);
        match &self.v {
            V::A(xs) => xs.iter().for_each(|x| x.heads(out)),
            V::M(xs) => xs.iter().for_each(|(k, v)| {
                k.heads(out);
                v.heads(out)
            }),
            V::Tag(_, i) => i.heads(out),
            _ => {}
        }
    }
}
