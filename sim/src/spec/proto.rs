//! Specification automata of the Ouroboros mini-protocols (DESIGN.md Appendix A),
//! written from the network specification, independent of the pallas code they judge.

#[derive(Clone, Copy, PartialEq, Eq, Debug, Hash)]
pub enum Agency {
    Client,
    Server,
    Nobody,
}
use Agency::*;

pub struct Spec {
    pub name: &'static str,
    pub states: &'static [(&'static str, Agency)],
    pub msgs: &'static [&'static str],
    /// (state, message, successor)
    pub trans: &'static [(u8, u8, u8)],
    pub init: u8,
}

impl Spec {
    pub fn next(&self, s: u8, m: u8) -> Option<u8> {
        self.trans.iter().find(|t| t.0 == s && t.1 == m).map(|t| t.2)
    }
    pub fn agency(&self, s: u8) -> Agency {
        self.states[s as usize].1
    }
    pub fn legal(&self, s: u8) -> Vec<(u8, u8)> {
        self.trans.iter().filter(|t| t.0 == s).map(|t| (t.1, t.2)).collect()
    }
    pub fn sname(&self, s: u8) -> &'static str {
        self.states[s as usize].0
    }
    pub fn mname(&self, m: u8) -> &'static str {
        self.msgs[m as usize]
    }
    pub fn is_done(&self, s: u8) -> bool {
        self.agency(s) == Nobody
    }
    pub fn pairs(&self) -> usize {
        self.states.len() * self.msgs.len()
    }
}

// ---- handshake
pub mod hs {
    pub const PROPOSE: u8 = 0;
    pub const CONFIRM: u8 = 1;
    pub const DONE: u8 = 2;
    pub const M_PROPOSE: u8 = 0;
    pub const M_ACCEPT: u8 = 1;
    pub const M_REFUSE: u8 = 2;
    pub const M_QUERY_REPLY: u8 = 3;
}
pub static HANDSHAKE: Spec = Spec {
    name: "handshake",
    states: &[("Propose", Client), ("Confirm", Server), ("Done", Nobody)],
    msgs: &["Propose", "Accept", "Refuse", "QueryReply"],
    trans: &[(0, 0, 1), (1, 1, 2), (1, 2, 2), (1, 3, 2)],
    init: 0,
};

// ---- chain-sync
pub mod cs {
    pub const IDLE: u8 = 0;
    pub const CAN_AWAIT: u8 = 1;
    pub const MUST_REPLY: u8 = 2;
    pub const INTERSECT: u8 = 3;
    pub const DONE: u8 = 4;
    pub const M_REQUEST_NEXT: u8 = 0;
    pub const M_AWAIT_REPLY: u8 = 1;
    pub const M_ROLL_FORWARD: u8 = 2;
    pub const M_ROLL_BACKWARD: u8 = 3;
    pub const M_FIND_INTERSECT: u8 = 4;
    pub const M_INTERSECT_FOUND: u8 = 5;
    pub const M_INTERSECT_NOT_FOUND: u8 = 6;
    pub const M_DONE: u8 = 7;
}
pub static CHAINSYNC: Spec = Spec {
    name: "chainsync",
    states: &[("Idle", Client), ("CanAwait", Server), ("MustReply", Server), ("Intersect", Server), ("Done", Nobody)],
    msgs: &["RequestNext", "AwaitReply", "RollForward", "RollBackward", "FindIntersect", "IntersectFound", "IntersectNotFound", "Done"],
    trans: &[
        (0, 0, 1),
        (0, 4, 3),
        (0, 7, 4),
        (1, 1, 2),
        (1, 2, 0),
        (1, 3, 0),
        (2, 2, 0),
        (2, 3, 0),
        (3, 5, 0),
        (3, 6, 0),
    ],
    init: 0,
};

// ---- block-fetch
pub mod bf {
    pub const IDLE: u8 = 0;
    pub const BUSY: u8 = 1;
    pub const STREAMING: u8 = 2;
    pub const DONE: u8 = 3;
    pub const M_REQUEST_RANGE: u8 = 0;
    pub const M_CLIENT_DONE: u8 = 1;
    pub const M_START_BATCH: u8 = 2;
    pub const M_NO_BLOCKS: u8 = 3;
    pub const M_BLOCK: u8 = 4;
    pub const M_BATCH_DONE: u8 = 5;
}
pub static BLOCKFETCH: Spec = Spec {
    name: "blockfetch",
    states: &[("Idle", Client), ("Busy", Server), ("Streaming", Server), ("Done", Nobody)],
    msgs: &["RequestRange", "ClientDone", "StartBatch", "NoBlocks", "Block", "BatchDone"],
    trans: &[(0, 0, 1), (0, 1, 3), (1, 2, 2), (1, 3, 0), (2, 4, 2), (2, 5, 0)],
    init: 0,
};

// ---- tx-submission2 (client = initiator = tx provider; server requests)
pub mod ts {
    pub const INIT: u8 = 0;
    pub const IDLE: u8 = 1;
    pub const TXIDS_BLOCKING: u8 = 2;
    pub const TXIDS_NONBLOCKING: u8 = 3;
    pub const TXS: u8 = 4;
    pub const DONE: u8 = 5;
    pub const M_INIT: u8 = 0;
    pub const M_REQUEST_TXIDS_BLOCKING: u8 = 1;
    pub const M_REQUEST_TXIDS_NONBLOCKING: u8 = 2;
    pub const M_REPLY_TXIDS: u8 = 3;
    pub const M_REQUEST_TXS: u8 = 4;
    pub const M_REPLY_TXS: u8 = 5;
    pub const M_DONE: u8 = 6;
}
pub static TXSUBMISSION: Spec = Spec {
    name: "txsubmission",
    states: &[("Init", Client), ("Idle", Server), ("TxIdsBlocking", Client), ("TxIdsNonBlocking", Client), ("Txs", Client), ("Done", Nobody)],
    msgs: &["Init", "RequestTxIds(blocking)", "RequestTxIds(non-blocking)", "ReplyTxIds", "RequestTxs", "ReplyTxs", "Done"],
    trans: &[(0, 0, 1), (1, 1, 2), (1, 2, 3), (1, 4, 4), (2, 3, 1), (2, 6, 5), (3, 3, 1), (4, 5, 1)],
    init: 0,
};

// ---- keep-alive
pub mod ka {
    pub const CLIENT: u8 = 0;
    pub const SERVER: u8 = 1;
    pub const DONE: u8 = 2;
    pub const M_KEEPALIVE: u8 = 0;
    pub const M_RESPONSE: u8 = 1;
    pub const M_DONE: u8 = 2;
}
pub static KEEPALIVE: Spec = Spec {
    name: "keepalive",
    states: &[("Client", Client), ("Server", Server), ("Done", Nobody)],
    msgs: &["KeepAlive", "ResponseKeepAlive", "Done"],
    trans: &[(0, 0, 1), (0, 2, 2), (1, 1, 0)],
    init: 0,
};

// ---- peer-sharing
pub mod ps {
    pub const IDLE: u8 = 0;
    pub const BUSY: u8 = 1;
    pub const DONE: u8 = 2;
    pub const M_SHARE_REQUEST: u8 = 0;
    pub const M_SHARE_PEERS: u8 = 1;
    pub const M_DONE: u8 = 2;
}
pub static PEERSHARING: Spec = Spec {
    name: "peersharing",
    states: &[("Idle", Client), ("Busy", Server), ("Done", Nobody)],
    msgs: &["ShareRequest", "SharePeers", "Done"],
    trans: &[(0, 0, 1), (0, 2, 2), (1, 1, 0)],
    init: 0,
};

// ---- leios-notify
pub mod lnf {
    pub const IDLE: u8 = 0;
    pub const BUSY: u8 = 1;
    pub const DONE: u8 = 2;
    pub const M_REQUEST_NEXT: u8 = 0;
    pub const M_BLOCK_ANNOUNCEMENT: u8 = 1;
    pub const M_BLOCK_OFFER: u8 = 2;
    pub const M_BLOCK_TXS_OFFER: u8 = 3;
    pub const M_VOTES: u8 = 4;
    pub const M_DONE: u8 = 5;
}
pub static LEIOSNOTIFY: Spec = Spec {
    name: "leiosnotify",
    states: &[("Idle", Client), ("Busy", Server), ("Done", Nobody)],
    msgs: &["RequestNext", "BlockAnnouncement", "BlockOffer", "BlockTxsOffer", "Votes", "Done"],
    trans: &[(0, 0, 1), (0, 5, 2), (1, 1, 0), (1, 2, 0), (1, 3, 0), (1, 4, 0)],
    init: 0,
};

// ---- leios-fetch
pub mod lf {
    pub const IDLE: u8 = 0;
    pub const AWAITING_BLOCK: u8 = 1;
    pub const AWAITING_BLOCK_TXS: u8 = 2;
    pub const DONE: u8 = 3;
    pub const M_BLOCK_REQUEST: u8 = 0;
    pub const M_BLOCK: u8 = 1;
    pub const M_BLOCK_TXS_REQUEST: u8 = 2;
    pub const M_BLOCK_TXS: u8 = 3;
    pub const M_DONE: u8 = 4;
}
pub static LEIOSFETCH: Spec = Spec {
    name: "leiosfetch",
    states: &[("Idle", Client), ("AwaitingBlock", Server), ("AwaitingBlockTxs", Server), ("Done", Nobody)],
    msgs: &["BlockRequest", "Block", "BlockTxsRequest", "BlockTxs", "Done"],
    trans: &[(0, 0, 1), (0, 2, 2), (0, 4, 3), (1, 1, 0), (2, 3, 0)],
    init: 0,
};

// ---- local-state-query
pub mod lsq {
    pub const IDLE: u8 = 0;
    pub const ACQUIRING: u8 = 1;
    pub const ACQUIRED: u8 = 2;
    pub const QUERYING: u8 = 3;
    pub const DONE: u8 = 4;
    pub const M_ACQUIRE: u8 = 0;
    pub const M_FAILURE: u8 = 1;
    pub const M_ACQUIRED: u8 = 2;
    pub const M_QUERY: u8 = 3;
    pub const M_RESULT: u8 = 4;
    pub const M_REACQUIRE: u8 = 5;
    pub const M_RELEASE: u8 = 6;
    pub const M_DONE: u8 = 7;
}
pub static LOCALSTATE: Spec = Spec {
    name: "localstate",
    states: &[("Idle", Client), ("Acquiring", Server), ("Acquired", Client), ("Querying", Server), ("Done", Nobody)],
    msgs: &["Acquire", "Failure", "Acquired", "Query", "Result", "ReAcquire", "Release", "Done"],
    trans: &[(0, 0, 1), (0, 7, 4), (1, 2, 2), (1, 1, 0), (2, 3, 3), (2, 5, 1), (2, 6, 0), (3, 4, 2)],
    init: 0,
};

// ---- local-tx-submission
pub mod lts {
    pub const IDLE: u8 = 0;
    pub const BUSY: u8 = 1;
    pub const DONE: u8 = 2;
    pub const M_SUBMIT: u8 = 0;
    pub const M_ACCEPT: u8 = 1;
    pub const M_REJECT: u8 = 2;
    pub const M_DONE: u8 = 3;
}
pub static LOCALTXSUBMISSION: Spec = Spec {
    name: "localtxsubmission",
    states: &[("Idle", Client), ("Busy", Server), ("Done", Nobody)],
    msgs: &["SubmitTx", "AcceptTx", "RejectTx", "Done"],
    trans: &[(0, 0, 1), (0, 3, 2), (1, 1, 0), (1, 2, 0)],
    init: 0,
};

// ---- local-tx-monitor
pub mod ltm {
    pub const IDLE: u8 = 0;
    pub const ACQUIRING: u8 = 1;
    pub const ACQUIRED: u8 = 2;
    pub const BUSY_NEXT: u8 = 3;
    pub const BUSY_HAS: u8 = 4;
    pub const BUSY_SIZES: u8 = 5;
    pub const DONE: u8 = 6;
    pub const M_ACQUIRE: u8 = 0;
    pub const M_ACQUIRED: u8 = 1;
    pub const M_AWAIT_ACQUIRE: u8 = 2;
    pub const M_RELEASE: u8 = 3;
    pub const M_NEXT_TX: u8 = 4;
    pub const M_REPLY_NEXT_TX: u8 = 5;
    pub const M_HAS_TX: u8 = 6;
    pub const M_REPLY_HAS_TX: u8 = 7;
    pub const M_GET_SIZES: u8 = 8;
    pub const M_REPLY_GET_SIZES: u8 = 9;
    pub const M_DONE: u8 = 10;
}
pub static TXMONITOR: Spec = Spec {
    name: "txmonitor",
    states: &[("Idle", Client), ("Acquiring", Server), ("Acquired", Client), ("Busy(NextTx)", Server), ("Busy(HasTx)", Server), ("Busy(GetSizes)", Server), ("Done", Nobody)],
    msgs: &["Acquire", "Acquired", "AwaitAcquire", "Release", "NextTx", "ReplyNextTx", "HasTx", "ReplyHasTx", "GetSizes", "ReplyGetSizes", "Done"],
    trans: &[
        (0, 0, 1),
        (0, 10, 6),
        (1, 1, 2),
        (2, 2, 1),
        (2, 3, 0),
        (2, 4, 3),
        (2, 6, 4),
        (2, 8, 5),
        (3, 5, 2),
        (4, 7, 2),
        (5, 9, 2),
    ],
    init: 0,
};
