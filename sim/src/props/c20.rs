//! C20 — the multiplexer delivers each protocol's chunks in order, exactly once.
use crate::core::*;
use crate::engines::net1::*;
use pallas_network::multiplexer::{AgentChannel, Plexer};
use std::time::Duration;

#[derive(Clone, Debug)]
struct Endpoint {
    side: usize, // 0 = A, 1 = B
    client: bool,
    proto: u16,
    /// chunks this endpoint sends / expects (expects = counterpart's sends)
    send: Vec<Vec<u8>>,
    expect: Vec<Vec<u8>>,
    agent: usize,
}

fn chunk(agent: usize, dir: usize, seq: usize, len: usize) -> Vec<u8> {
    let mut r = Rng::new(mix(mix(agent as u64, dir as u64), seq as u64));
    let mut v = Vec::with_capacity(len);
    while v.len() < len {
        let x = r.next();
        for i in 0..8 {
            if v.len() < len {
                v.push((x >> (8 * i)) as u8);
            }
        }
    }
    v
}

fn chunk_len(ch: &mut Choices, budget: &mut usize) -> usize {
    let n = chunk_len_raw(ch);
    // keep the run inside its byte budget: once exhausted only tiny chunks follow
    if n > *budget {
        let m = (*budget).min(3);
        *budget -= m;
        return m;
    }
    *budget -= n;
    n
}

fn chunk_len_raw(ch: &mut Choices) -> usize {
    match ch.draw("chunk.size.class", 8) {
        0 => 0,
        1 => 1,
        2 => 2,
        3 => 3 + ch.draw("chunk.size.small", 60) as usize,
        4 => 65534,
        5 => 65535,
        6 => ch.draw("chunk.size.mid", 4096) as usize,
        _ => ch.draw("chunk.size.any", 65536) as usize,
    }
}

pub struct Mux {
    pub name: &'static str,
    pub faults: bool,
    pub max_chunks: u64,
    /// the bearer is a kernel Unix socketpair (the `Bearer::Unix` arms run) instead of the simulated pipe
    pub kernel: bool,
}

async fn endpoint_task(sh: Sh, mut ch: AgentChannel, ep: Endpoint, eidx: usize) -> Result<(), Violation> {
    let (mut sent, mut recvd) = (0usize, 0usize);
    // timeouts back off while nothing moves, so a stuck run reaches the watchdog in few iterations
    let mut idle = 0u32;
    while sent < ep.send.len() || recvd < ep.expect.len() {
        let tmo = Duration::from_millis(20u64 << idle.min(10));
        idle += 1;
        let try_send = sent < ep.send.len() && (recvd >= ep.expect.len() || chance(&sh, "ep.send_first", 1, 2));
        if try_send {
            match tokio::time::timeout(tmo, ch.enqueue_chunk(ep.send[sent].clone())).await {
                Ok(Ok(())) => {
                    ev(&sh, "enq", &[eidx as u64, sent as u64, ep.send[sent].len() as u64]);
                    sent += 1;
                    idle = 0;
                }
                Ok(Err(e)) => return Err(Violation::new("mux", "enqueue-failed", format!("endpoint {eidx}: enqueue_chunk failed: {e}"))),
                Err(_) => inc(&sh, "probe.backpressure_timeout"),
            }
        } else if recvd < ep.expect.len() {
            match tokio::time::timeout(tmo, ch.dequeue_chunk()).await {
                Ok(Ok(c)) => {
                    ev(&sh, "deq", &[eidx as u64, recvd as u64, c.len() as u64]);
                    if c != ep.expect[recvd] {
                        // classify: is it some other chunk of this stream (order/dup/loss) or foreign?
                        let pos = ep.expect.iter().position(|x| *x == c);
                        let what = match pos {
                            Some(p) if p < recvd => "duplicate",
                            Some(_) => "out-of-order-or-lost",
                            None => "foreign-or-corrupt",
                        };
                        return Err(Violation::new(
                            "mux",
                            what.to_string(),
                            format!("endpoint {eidx} (side {} {} proto {:#06x}) chunk #{recvd}: got {} bytes, expected {} bytes ({what})", ep.side, if ep.client { "client" } else { "server" }, ep.proto, c.len(), ep.expect[recvd].len()),
                        ));
                    }
                    recvd += 1;
                    idle = 0;
                }
                Ok(Err(e)) => return Err(Violation::new("mux", "dequeue-failed", format!("endpoint {eidx}: dequeue_chunk failed after {recvd}/{} chunks: {e}", ep.expect.len()))),
                Err(_) => {}
            }
        }
        pause(&sh, "ep.pause", 1, 6).await;
    }
    // exactly once: nothing more may arrive
    if let Ok(Ok(c)) = tokio::time::timeout(Duration::from_millis(500), ch.dequeue_chunk()).await {
        return Err(Violation::new("mux", "extra-chunk", format!("endpoint {eidx} received an extra chunk of {} bytes after its {} expected ones", c.len(), ep.expect.len())));
    }
    Ok(())
}

impl Scenario for Mux {
    fn name(&self) -> &'static str {
        self.name
    }
    fn run(&self, cx: &mut RunCx) -> Result<(), Violation> {
        // ---- plan (all choices of the workload shape are drawn up front)
        let n_agents = cx.ch.range("agents", 1, 6) as usize;
        let mut eps: Vec<Endpoint> = vec![];
        let mut listen: [Vec<u16>; 2] = [vec![], vec![]];
        let mut agent = 0;
        let mut tries = 0;
        let budget0 = if self.kernel { *cx.ch.pick("bytes.budget", &[2_000usize, 20_000, 200_000, 600_000]) } else { *cx.ch.pick("bytes.budget", &[2_000usize, 20_000, 200_000, 1_200_000]) };
        let mut budget = budget0;
        while agent < n_agents && tries < 64 {
            tries += 1;
            let proto: u16 = match cx.ch.draw("proto.class", 6) {
                0 => 0,
                1 => 0x7fff,
                2 => 0x8000 | cx.ch.draw("proto.hi", 12) as u16,
                _ => cx.ch.draw("proto.lo", 12) as u16,
            };
            let cside = cx.ch.draw("client.side", 2) as usize;
            let (cl, sl) = (proto ^ 0x8000, proto);
            if listen[cside].contains(&cl) || listen[1 - cside].contains(&sl) {
                continue;
            }
            listen[cside].push(cl);
            listen[1 - cside].push(sl);
            let dirs = cx.ch.draw("dirs", 3); // 0 c->s, 1 s->c, 2 both
            let mut mk = |cx: &mut RunCx, on: bool, dir: usize| -> Vec<Vec<u8>> {
                if !on {
                    return vec![];
                }
                let n = match cx.ch.draw("chunks.class", 4) {
                    0 => cx.ch.draw("chunks.few", 4),
                    1 => cx.ch.draw("chunks.some", 30),
                    _ => cx.ch.draw("chunks.many", self.max_chunks + 1),
                } as usize;
                (0..n).map(|s| chunk(agent, dir, s, chunk_len(&mut cx.ch, &mut budget))).collect()
            };
            let c2s = mk(cx, dirs != 1, 0);
            let s2c = mk(cx, dirs != 0, 1);
            eps.push(Endpoint { side: cside, client: true, proto, send: c2s.clone(), expect: s2c.clone(), agent });
            eps.push(Endpoint { side: 1 - cside, client: false, proto, send: s2c, expect: c2s, agent });
            agent += 1;
        }
        // unsubscribed traffic: a sender whose peer has no subscriber for it
        let stray = cx.ch.chance("stray", 1, 2);
        let stray_proto = 0x0100 + cx.ch.draw("stray.proto", 4) as u16;
        let stray_n = cx.ch.draw("stray.chunks", 20) as usize;
        let total: usize = eps.iter().map(|e| e.send.len()).sum();
        cx.tr.ev("plan", &[agent as u64, total as u64, stray as u64]);
        let pcfg = if self.faults {
            PipeCfg {
                stall: (cx.ch.draw("cfg.stall", 4), 8),
                short: (cx.ch.draw("cfg.short", 4), 4),
                delay: (cx.ch.draw("cfg.delay", 3), 16),
                capacity: {
                    let c = *cx.ch.pick("cfg.capacity", &[1usize << 20, 70_000, 4096, 64, 9]);
                    // tiny pipes only for small runs, so a run stays within ~10^4 pipe operations
                    if budget0 / c > 4000 { 70_000 } else { c }
                },
                ..Default::default()
            }
        } else {
            PipeCfg::default()
        };
        // kernel socket buffers: the minimum the kernel grants (a request of 1 byte is rounded up to
        // about 4.6 kB), 8 kB, 64 kB or the default (~208 kB); a chunk larger than the free space is
        // taken by the kernel in pieces (short writes) and read back in pieces (short reads)
        let kbuf: [Option<usize>; 2] = if self.kernel {
            [*cx.ch.pick("cfg.sndbuf", &[None, Some(1usize), Some(8192), Some(65536)]), *cx.ch.pick("cfg.rcvbuf", &[None, Some(1usize), Some(8192), Some(65536)])]
        } else {
            [None, None]
        };
        let kernel = self.kernel;
        let var_regimes = self.faults && cx.ch.chance("cfg.var_regimes", 1, 2);
        let task_stall = if self.faults { (cx.ch.draw("cfg.task_stall", 4), 8) } else { (0, 1) };
        let total_bytes: usize = eps.iter().flat_map(|e| e.send.iter()).map(|c| c.len()).sum();
        cx.st.add("probe.chunks_planned", total as u64);
        cx.st.add("probe.bytes_planned", total_bytes as u64);

        if kernel {
            let lim = kbuf[0].map(|x| x.max(4608)).unwrap_or(212_992);
            let split = eps.iter().flat_map(|e| e.send.iter()).filter(|c| c.len() + 8 > lim).count();
            cx.st.add("fault.kernel_short_write_forced", split as u64);
            if kbuf[0] == Some(1) {
                cx.st.inc("fault.kernel_min_sndbuf");
            }
            if kbuf[1] == Some(1) {
                cx.st.inc("fault.kernel_min_rcvbuf");
            }
        }
        run_sim_opts(cx, kernel, if kernel { 2 * WATCHDOG_S } else { WATCHDOG_S }, |sh| async move {
            let mut plex = if kernel {
                let (a, b) = unix_pair(kbuf[0], kbuf[1]);
                [Plexer::new(pallas_network::multiplexer::Bearer::Unix(a)), Plexer::new(pallas_network::multiplexer::Bearer::Unix(b))]
            } else {
                let (wa, rb) = pipe("a2b", &sh, &pcfg);
                let (wb, ra) = pipe("b2a", &sh, &pcfg);
                [Plexer::new(bearer1(ra, wa)), Plexer::new(bearer1(rb, wb))]
            };
            let mut chans = vec![];
            for e in &eps {
                let c = if e.client { plex[e.side].subscribe_client(e.proto) } else { plex[e.side].subscribe_server(e.proto) };
                chans.push(c);
            }
            let stray_chan = if stray { Some(plex[0].subscribe_client(stray_proto)) } else { None };
            let [pa, pb] = plex;
            let (ra_, rb_) = (pa.spawn(), pb.spawn());
            let mut handles = vec![];
            for (i, (e, c)) in eps.iter().cloned().zip(chans.into_iter()).enumerate() {
                // half the faulty runs give every endpoint its own, changing stall regime
                if var_regimes {
                    handles.push(tokio::spawn(chaos_var(endpoint_task(sh.clone(), c, e, i), &sh)));
                } else {
                    handles.push(tokio::spawn(chaos(endpoint_task(sh.clone(), c, e, i), &sh, task_stall)));
                }
            }
            if let Some(mut sc) = stray_chan {
                let sh2 = sh.clone();
                handles.push(tokio::spawn(async move {
                    for s in 0..stray_n {
                        let _ = tokio::time::timeout(Duration::from_millis(20), sc.enqueue_chunk(chunk(99, 0, s, 10 + s))).await;
                        inc(&sh2, "probe.unsubscribed_chunks_sent");
                    }
                    // keep the channel open until the end so the plexer does not see a closed ingress
                    tokio::time::sleep(Duration::from_secs(5)).await;
                    Ok(())
                }));
            }
            let mut result = Ok(());
            for h in handles {
                match h.await {
                    Ok(Ok(())) => {}
                    Ok(Err(v)) => {
                        if result.is_ok() {
                            result = Err(v);
                        }
                    }
                    Err(e) if e.is_panic() => {
                        let (f, m) = take_panic().unwrap_or(("?".into(), "?".into()));
                        if result.is_ok() {
                            result = Err(panic_violation(&f, &m));
                        }
                    }
                    Err(_) => {}
                }
            }
            ra_.abort().await;
            rb_.abort().await;
            {
                let mut s = sh.lock().unwrap();
                s.st.progress = true;
                s.st.add("probe.chunks_delivered", total as u64);
            }
            result
        })
    }
}

pub fn def() -> CheckDef {
    CheckDef {
        prop: "C20",
        level: "exploration",
        batches: vec![
            batch(Mux { name: "mux-fault-free", faults: false, max_chunks: 200, kernel: false }, 1_500, 100_000, false),
            batch(Mux { name: "mux-schedules", faults: true, max_chunks: 200, kernel: false }, 3_000, 250_000, true),
            batch(Mux { name: "mux-kernel-unix-socketpair", faults: true, max_chunks: 200, kernel: true }, 1_500, 100_000, true),
        ],
        rule: "two real Plexers joined by two seeded in-memory pipes; 1..6 agents with seeded protocol ids (0, 0x7fff, ids differing only in bit 15), roles and directions, 0..200 uniquely stamped chunks each of sizes {0,1,2,small,65534,65535,uniform}; schedules = seeded stalls of every pipe poll and task poll, simulated-time delays, short reads, partial writes, pipe capacities down to 9 bytes (back-pressure); half the runs carry traffic for an unsubscribed protocol; oracle: every endpoint receives exactly its counterpart's chunks, in order, nothing else, and the run quiesces before the simulated-time watchdog; a third batch joins the two plexers by a kernel Unix socketpair instead (real Bearer::Unix arms; seeded SO_SNDBUF/SO_RCVBUF from the kernel minimum of about 4.6 kB to the default, so segments larger than the free buffer space are taken and returned in pieces); non-trivial = completed run with a non-neutral choice; distinct = distinct event traces",
        real: vec!["pallas_network::multiplexer::{Plexer, Muxer, Demuxer, AgentChannel, Header}", "tokio mpsc, time, current-thread scheduler (paused clock)", "BearerReadHalf::Unix / BearerWriteHalf::Unix over a kernel socketpair (batch mux-kernel-unix-socketpair)"],
        stub: vec!["the socket: Bearer::Sim over SimPipe (hook H1) in the two simulated-pipe batches; the Tcp arms of Bearer are never run"],
        assumptions: vec![
            "interleavings are explored at await granularity on one thread; memory-model reorderings of a multi-threaded runtime are out of reach (DESIGN 1.3)",
            "no loss or corruption is injected: the statement assumes a connected pair",
            "in the kernel-socketpair batch the kernel's buffer accounting is outside the simulator; it is a function of this thread's syscall sequence on two sockets private to the run (determinism observed by the double-run guard, not constructed)",
        ],
        required: vec!["fault.stall", "fault.short_read", "fault.partial_write", "fault.delay", "fault.task_stall", "probe.backpressure_timeout", "probe.unsubscribed_chunks_sent", "probe.chunks_delivered", "fault.kernel_short_write_forced", "fault.kernel_min_sndbuf", "fault.kernel_min_rcvbuf", "fault.task_starved_regime"],
        env_nondeterminism: "task interleaving (seeded stalls at every pipe/task poll), simulated-time delays, read/write granularity, back-pressure; tokio's scheduler RNG seeded per run",
    }
}
