//! C41 — signing keeps the witness set in step with the signature map.
//! Single-actor history simulation (E4): no environment nondeterminism.

use crate::core::*;
use crate::spec::cbor::{self, V};
use pallas_crypto::hash::Hasher;
use pallas_crypto::key::ed25519::{PublicKey, SecretKey, Signature};
use pallas_txbuilder::{BuildConway, BuiltTransaction, Input, Output, StagingTransaction};
use std::collections::BTreeMap;

pub struct Hist;

pub fn addr(ch: &mut Choices) -> pallas_addresses::Address {
    let mut b = vec![0x60 | (ch.draw("addr.net", 2) as u8)];
    b.extend(ch.bytes("addr.hash", 28));
    pallas_addresses::Address::from_bytes(&b).expect("enterprise address")
}

fn base_tx(ch: &mut Choices) -> Result<BuiltTransaction, Violation> {
    let mut st = StagingTransaction::new();
    let n_in = ch.range("tx.inputs", 0, 3);
    for _ in 0..n_in {
        let h: [u8; 32] = ch.bytes("tx.in.hash", 32).try_into().unwrap();
        st = st.input(Input::new(h.into(), ch.draw("tx.in.idx", 4)));
    }
    let n_out = ch.range("tx.outputs", 0, 2);
    for _ in 0..n_out {
        let a = addr(ch);
        st = st.output(Output::new(a, 1_000_000 + ch.draw("tx.out.coin", 1 << 20)));
    }
    st = st.fee(ch.draw("tx.fee", 1 << 20));
    if ch.chance("tx.signer", 1, 3) {
        let h: [u8; 28] = ch.bytes("tx.signer.hash", 28).try_into().unwrap();
        st = st.disclosed_signer(h.into());
    }
    if ch.chance("tx.ttl", 1, 3) {
        st = st.invalid_from_slot(ch.draw("tx.ttl.v", 1 << 30));
    }
    st.build_conway_raw().map_err(|e| Violation::new("setup", "build", format!("base tx build failed: {e}")))
}

/// (body bytes, witnesses [(vkey, sig)]) read with the independent CBOR walker
fn dissect(tx_bytes: &[u8]) -> Result<(Vec<u8>, Vec<(Vec<u8>, Vec<u8>)>), String> {
    let it = cbor::parse_one(tx_bytes).map_err(|e| format!("tx_bytes not one well-formed CBOR item: {e:?}"))?;
    let xs = it.arr().ok_or("tx is not an array")?;
    if xs.len() != 4 {
        return Err(format!("tx array has {} elements", xs.len()));
    }
    let body = tx_bytes[xs[0].start..xs[0].end].to_vec();
    let ws = &xs[1];
    if ws.map().is_none() {
        return Err("witness set is not a map".into());
    }
    let mut out = vec![];
    if let Some(vk) = ws.map_get(0) {
        let arr = vk.untag().arr().ok_or("vkeywitness is not an array")?;
        for w in arr {
            let pair = w.arr().ok_or("witness not an array")?;
            if pair.len() != 2 {
                return Err("witness arity".into());
            }
            out.push((
                pair[0].bytes().ok_or("vkey not bytes")?.clone(),
                pair[1].bytes().ok_or("sig not bytes")?.clone(),
            ));
        }
    }
    Ok((body, out))
}

impl Scenario for Hist {
    fn name(&self) -> &'static str {
        "sign-history"
    }
    fn run(&self, cx: &mut RunCx) -> Result<(), Violation> {
        let nkeys = cx.ch.range("keys", 1, 4) as usize;
        let keys: Vec<SecretKey> = (0..nkeys)
            .map(|_| {
                let b: [u8; 32] = cx.ch.bytes("key", 32).try_into().unwrap();
                SecretKey::from(b)
            })
            .collect();
        // a key that is never used for signing: "absent"
        let absent: [u8; 32] = cx.ch.bytes("absent", 32).try_into().unwrap();
        let absent_pk = SecretKey::from(absent).public_key();

        let mut tx = base_tx(&mut cx.ch)?;
        let (body0, w0) = dissect(&tx.tx_bytes.0).map_err(|e| Violation::new("setup", "dissect", e))?;
        if !w0.is_empty() {
            return Err(Violation::new("setup", "witnesses", "fresh tx already has witnesses"));
        }
        let id0 = tx.tx_hash.0;
        if *Hasher::<256>::hash(&body0) != id0 {
            return Err(Violation::new("model", "id.initial", "tx_hash is not blake2b-256 of the body bytes"));
        }
        // model: pk -> (sig, made_valid)
        let mut model: BTreeMap<[u8; 32], ([u8; 64], bool)> = BTreeMap::new();
        let steps = cx.ch.range("steps", 1, 14);
        for step in 0..steps {
            let op = cx.ch.draw("op", 6);
            let k = cx.ch.draw("key.idx", nkeys as u64) as usize;
            let pk: [u8; 32] = keys[k].public_key().as_ref().try_into().unwrap();
            let opname;
            let res = match op {
                0 | 1 => {
                    opname = "sign";
                    cx.tr.ev("sign", &[k as u64]);
                    let sig: [u8; 64] = keys[k].sign(id0).as_ref().try_into().unwrap();
                    model.insert(pk, (sig, true));
                    tx.sign(&keys[k])
                }
                2 => {
                    opname = "add_signature";
                    let garbage = cx.ch.chance("add.garbage", 1, 4);
                    cx.tr.ev("add_signature", &[k as u64, garbage as u64]);
                    let sig: [u8; 64] = if garbage {
                        cx.ch.bytes("garbage.sig", 64).try_into().unwrap()
                    } else {
                        keys[k].sign(id0).as_ref().try_into().unwrap()
                    };
                    model.insert(pk, (sig, !garbage));
                    tx.add_signature(PublicKey::from(pk), sig)
                }
                3 => {
                    opname = "remove_signature";
                    cx.tr.ev("remove_signature", &[k as u64]);
                    if model.remove(&pk).is_some() {
                        cx.st.inc("probe.remove_present");
                        if model.is_empty() {
                            cx.st.inc("probe.remove_last");
                        }
                    }
                    tx.remove_signature(PublicKey::from(pk))
                }
                4 => {
                    opname = "remove_absent";
                    cx.tr.ev("remove_absent", &[]);
                    cx.st.inc("probe.remove_absent");
                    let apk: [u8; 32] = absent_pk.as_ref().try_into().unwrap();
                    tx.remove_signature(PublicKey::from(apk))
                }
                _ => {
                    opname = "restart";
                    cx.tr.ev("restart", &[]);
                    cx.st.inc("fault.restart_serde_roundtrip");
                    let s = serde_json::to_string(&tx)
                        .map_err(|e| Violation::new("model", "restart.serialize", e.to_string()))?;
                    let back: BuiltTransaction = serde_json::from_str(&s)
                        .map_err(|e| Violation::new("model", "restart.deserialize", e.to_string()))?;
                    if back != tx {
                        cx.report(Violation::new("model", "restart.differs", "serde round-trip changed the built transaction"))?;
                    }
                    Ok(back)
                }
            };
            tx = match res {
                Ok(t) => t,
                Err(e) => {
                    return Err(Violation::new("model", format!("{opname}.failed"), format!("{opname} returned {e}")));
                }
            };
            cx.st.steps += 1;
            // ---- oracle after every step
            if tx.tx_hash.0 != id0 {
                cx.report(Violation::new("model", format!("{opname}.id_changed"), "tx_hash changed"))?;
            }
            let (body, ws) = match dissect(&tx.tx_bytes.0) {
                Ok(x) => x,
                Err(e) => return Err(Violation::new("model", format!("{opname}.malformed"), e)),
            };
            if body != body0 {
                cx.report(Violation::new("model", format!("{opname}.body_changed"), "body bytes changed"))?;
            }
            let sigmap: BTreeMap<[u8; 32], [u8; 64]> =
                tx.signatures.clone().unwrap_or_default().into_iter().map(|(k, v)| (k.0, v.0)).collect();
            let want: BTreeMap<[u8; 32], [u8; 64]> = model.iter().map(|(k, v)| (*k, v.0)).collect();
            if sigmap != want {
                cx.report(Violation::new(
                    "model",
                    format!("{opname}.sigmap"),
                    format!("signature map has {} entries, model {}", sigmap.len(), want.len()),
                ))?;
            }
            let mut seen: BTreeMap<Vec<u8>, Vec<u8>> = BTreeMap::new();
            let mut dup = false;
            for (vk, sg) in &ws {
                if seen.insert(vk.clone(), sg.clone()).is_some() {
                    dup = true;
                }
            }
            if dup {
                cx.report(Violation::new(
                    "model",
                    format!("{opname}.duplicate_witness"),
                    format!("{} witnesses for {} distinct keys after step {}", ws.len(), seen.len(), step),
                ))?;
            }
            let wit: BTreeMap<Vec<u8>, Vec<u8>> = seen;
            let wantw: BTreeMap<Vec<u8>, Vec<u8>> = sigmap.iter().map(|(k, v)| (k.to_vec(), v.to_vec())).collect();
            if wit != wantw {
                cx.report(Violation::new(
                    "model",
                    format!("{opname}.witness_set"),
                    format!("witness set ({} keys) differs from signature map ({} keys)", wit.len(), wantw.len()),
                ))?;
            }
            for (vk, sg) in &ws {
                let vk32: [u8; 32] = match vk.as_slice().try_into() {
                    Ok(x) => x,
                    Err(_) => return Err(Violation::new("model", format!("{opname}.vkey_len"), "vkey not 32 bytes")),
                };
                if let Some((_, true)) = model.get(&vk32) {
                    let s64: [u8; 64] = match sg.as_slice().try_into() {
                        Ok(x) => x,
                        Err(_) => return Err(Violation::new("model", format!("{opname}.sig_len"), "sig not 64 bytes")),
                    };
                    if !PublicKey::from(vk32).verify(id0, &Signature::from(s64)) {
                        cx.report(Violation::new("model", format!("{opname}.invalid_sig"), "witness does not verify"))?;
                    }
                }
            }
            let mut h = 0u64;
            for (k, v) in &model {
                h = mix(h, k[0] as u64 | ((v.1 as u64) << 8));
            }
            cx.st.state(mix(h, model.len() as u64));
        }
        cx.st.progress = true;
        Ok(())
    }
}

pub fn def() -> CheckDef {
    CheckDef {
        prop: "C41",
        level: "exploration",
        batches: vec![batch(Hist, 20_000, 1_500_000, false)],
        rule: "seeded histories (1..14 ops) of sign/add_signature/remove_signature/remove-absent/serde-restart over 1..4 keys on a seeded built tx; reference model BTreeMap<pk,sig> compared after every step with an independent CBOR walker; a run is non-trivial when at least one non-neutral choice was drawn and the history completed; distinct = distinct event-trace hashes",
        real: vec!["pallas_txbuilder::BuiltTransaction::{sign,add_signature,remove_signature}", "BuildConway::build_conway_raw", "serde impls of BuiltTransaction", "pallas_crypto ed25519"],
        stub: vec![],
        assumptions: vec!["add_signature is given the signature bytes the caller intends; validity is only demanded for signatures produced by the key", "single actor: no scheduler, clock or transport involved (history simulation only)"],
        required: vec!["probe.remove_absent", "probe.remove_present", "fault.restart_serde_roundtrip"],
        env_nondeterminism: "none (single-actor history simulation; the only injected event is persist-and-reload between steps)",
    }
}
