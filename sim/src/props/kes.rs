//! C12 (KES keys sign verifiably for exactly their current period) and
//! C13 (KES evolution erases all signing material of past periods).
//! Single-actor history simulation: no environment nondeterminism. The injected events are
//! persist-and-reload at an arbitrary step (Restart) and disclosure of the key buffer (Compromise).

use crate::core::*;
use pallas_crypto::hash::Hasher;
use pallas_crypto::kes::summed_kes::*;
use pallas_crypto::kes::traits::{KesCompactSig, KesSig, KesSk};
use pallas_crypto::kes::PublicKey;

/// independent derivation of the seed tree: node seeds by level, leaf seeds = Ed25519 signing keys
pub struct Tree {
    pub depth: u32,
    /// (lo, hi, seed) for every node, root first
    pub nodes: Vec<(u32, u32, [u8; 32])>,
    pub root_pk: [u8; 32],
}

fn h(tag: u8, s: &[u8; 32]) -> [u8; 32] {
    let mut hs = Hasher::<256>::new();
    hs.input(&[tag]);
    hs.input(s);
    *hs.finalize()
}

fn build(depth: u32, lo: u32, seed: [u8; 32], nodes: &mut Vec<(u32, u32, [u8; 32])>) -> [u8; 32] {
    let hi = lo + (1u32 << depth);
    nodes.push((lo, hi, seed));
    if depth == 0 {
        // leaf: the seed is the Ed25519 signing key
        let sk = pallas_crypto::key::ed25519::SecretKey::from(seed);
        let pk: [u8; 32] = sk.public_key().as_ref().try_into().unwrap();
        return pk;
    }
    let l = build(depth - 1, lo, h(1, &seed), nodes);
    let r = build(depth - 1, lo + (1u32 << (depth - 1)), h(2, &seed), nodes);
    let mut hs = Hasher::<256>::new();
    hs.input(&l);
    hs.input(&r);
    *hs.finalize()
}

impl Tree {
    pub fn new(depth: u32, seed: [u8; 32]) -> Tree {
        let mut nodes = vec![];
        let root_pk = build(depth, 0, seed, &mut nodes);
        Tree { depth, nodes, root_pk }
    }
    /// signing keys of periods < t and every seed that derives one of them
    pub fn forbidden(&self, t: u32) -> impl Iterator<Item = &(u32, u32, [u8; 32])> {
        self.nodes.iter().filter(move |(lo, _, _)| *lo < t)
    }
}

fn find(hay: &[u8], needle: &[u8; 32]) -> Option<usize> {
    hay.windows(32).position(|w| w == needle)
}

#[derive(Clone, Copy, PartialEq)]
pub enum Which {
    C12,
    C13,
}

macro_rules! history {
    ($fname:ident, $kes:ident, $sig:ident, $depth:expr, $compact:expr) => {
        fn $fname(cx: &mut RunCx, which: Which) -> Result<(), Violation> {
            let name = stringify!($kes);
            let depth: u32 = $depth;
            let total: u32 = 1 << depth;
            let seed: [u8; 32] = cx.ch.bytes("seed", 32).try_into().unwrap();
            let tree = Tree::new(depth, seed);
            let mut seed_buf = seed.to_vec();
            let mut buf = vec![0u8; <$kes as KesSk>::SIZE + 4];
            let (mut key, pk) = <$kes as KesSk>::keygen(&mut buf, &mut seed_buf);
            let pk0 = pk;
            if which == Which::C12 && pk.as_bytes() != tree.root_pk {
                return Err(Violation::new("model", format!("{name}:public-key"), "public key differs from the independent tree derivation"));
            }
            let mut t: u32 = 0;
            let mut refused = 0u32;
            // a second buffer for restarts (swapped in)
            let mut spare: Vec<u8>;
            cx.tr.ev("keygen", &[depth as u64, $compact as u64]);
            // sampled "other" periods for deep keys
            let exhaustive = depth <= 4;
            loop {
                cx.st.steps += 1;
                // ---- observation after every step
                if which == Which::C12 {
                    if key.get_period() != t {
                        return Err(Violation::new("model", format!("{name}:period"), format!("get_period() = {}, model {t}", key.get_period())));
                    }
                    if key.to_pk() != pk0 {
                        return Err(Violation::new("model", format!("{name}:public-key-changed"), format!("to_pk() changed at period {t}")));
                    }
                } else {
                    // Compromise: the attacker reads the whole key buffer
                    cx.st.inc("fault.compromise_reads_key_buffer");
                    let bytes = key.as_bytes();
                    for (lo, hi, s) in tree.forbidden(t) {
                        if let Some(off) = find(bytes, s) {
                            let what = if hi - lo == 1 { "signing-key" } else { "ancestor-seed" };
                            return Err(Violation::new(
                                "leak",
                                format!("{name}:{what}"),
                                format!("{name} at period {t}: the {what} of periods [{lo},{hi}) is still in the key buffer at offset {off}"),
                            ));
                        }
                    }
                }
                // ---- next operation
                // neutral choice (0) = update, so an exhausted replay tape walks the key to its end
                let op = cx.ch.draw("op", 6);
                if cx.st.steps > 8 * total as u64 + 64 {
                    break;
                }
                match op {
                    3 | 4 if which == Which::C12 || op == 3 => {
                        // SignVerify
                        let mlen = cx.ch.draw("msg.len", 40) as usize;
                        let m = cx.ch.bytes("msg", mlen);
                        cx.tr.ev("sign", &[t as u64]);
                        let sig = key.sign(&m);
                        if which == Which::C12 {
                            cx.st.inc("probe.sign_verify");
                            if sig.verify(t, &pk0, &m).is_err() {
                                return Err(Violation::new("model", format!("{name}:verify-current-period-fails"), format!("signature made at period {t} does not verify at {t}")));
                            }
                            let others: Vec<u32> = if exhaustive { (0..total).collect() } else { (0..8).map(|_| cx.ch.draw("other.period", total as u64) as u32).collect() };
                            for p in others {
                                if p != t && sig.verify(p, &pk0, &m).is_ok() {
                                    return Err(Violation::new("model", format!("{name}:verifies-at-other-period"), format!("signature made at period {t} verifies at period {p}")));
                                }
                            }
                            let bytes = sig.to_bytes();
                            match $sig::from_bytes(&bytes) {
                                Ok(back) if back == sig => {}
                                _ => return Err(Violation::new("model", format!("{name}:signature-roundtrip"), "signature bytes do not round-trip")),
                            }
                        }
                    }
                    5 => {
                        // Restart: persist, drop (zeroises the old buffer), reload
                        cx.tr.ev("restart", &[t as u64]);
                        cx.st.inc("fault.restart_persist_reload");
                        spare = key.as_bytes().to_vec();
                        drop(key);
                        buf = spare;
                        // SAFETY of lifetimes: `buf` now owns the persisted bytes; re-borrow for the reloaded key
                        let b: &mut [u8] = unsafe { std::slice::from_raw_parts_mut(buf.as_mut_ptr(), buf.len()) };
                        key = match <$kes as KesSk>::from_bytes(b) {
                            Ok(k) => k,
                            Err(e) => return Err(Violation::new("model", format!("{name}:reload-failed"), format!("{e:?}"))),
                        };
                    }
                    _ => {
                        cx.tr.ev("update", &[t as u64]);
                        let r = key.update();
                        if t + 1 == total {
                            cx.st.inc("probe.update_at_last_period");
                            if r.is_ok() && which == Which::C12 {
                                return Err(Violation::new("model", format!("{name}:update-past-last-period"), format!("update() succeeded at the last period {t}")));
                            }
                            // the refused evolution leaves a key that was evolved t times: the history goes on
                            // (observations, signatures, restarts, further refused updates) before it ends
                            refused += 1;
                            if refused >= 3 || r.is_ok() {
                                // one last observation of the exhausted key
                                if which == Which::C12 && key.get_period() != t {
                                    return Err(Violation::new("model", format!("{name}:period-after-refused-update"), format!("get_period() = {} after a refused update at period {t}", key.get_period())));
                                }
                                break;
                            }
                        } else {
                            if let Err(e) = r {
                                if which == Which::C12 {
                                    return Err(Violation::new("model", format!("{name}:update-fails-early"), format!("update() failed at period {t} of {total}: {e:?}")));
                                }
                                break;
                            }
                            t += 1;
                        }
                    }
                }
            }
            cx.st.state(mix(depth as u64, $compact as u64));
            cx.st.progress = true;
            Ok(())
        }
    };
}

history!(h_s1, Sum1Kes, Sum1KesSig, 1, false);
history!(h_s2, Sum2Kes, Sum2KesSig, 2, false);
history!(h_s3, Sum3Kes, Sum3KesSig, 3, false);
history!(h_s4, Sum4Kes, Sum4KesSig, 4, false);
history!(h_s5, Sum5Kes, Sum5KesSig, 5, false);
history!(h_s6, Sum6Kes, Sum6KesSig, 6, false);
history!(h_s7, Sum7Kes, Sum7KesSig, 7, false);
history!(h_c1, Sum1CompactKes, Sum1CompactKesSig, 1, true);
history!(h_c2, Sum2CompactKes, Sum2CompactKesSig, 2, true);
history!(h_c3, Sum3CompactKes, Sum3CompactKesSig, 3, true);
history!(h_c4, Sum4CompactKes, Sum4CompactKesSig, 4, true);
history!(h_c5, Sum5CompactKes, Sum5CompactKesSig, 5, true);
history!(h_c6, Sum6CompactKes, Sum6CompactKesSig, 6, true);
history!(h_c7, Sum7CompactKes, Sum7CompactKesSig, 7, true);

pub struct Kes {
    pub which: Which,
    pub deep: bool,
}

impl Scenario for Kes {
    fn name(&self) -> &'static str {
        match (self.which == Which::C12, self.deep) {
            (true, false) => "kes-histories-depth-1-4",
            (true, true) => "kes-histories-depth-5-7",
            (false, false) => "kes-compromise-depth-1-4",
            (false, true) => "kes-compromise-depth-5-7",
        }
    }
    fn run(&self, cx: &mut RunCx) -> Result<(), Violation> {
        let i = if self.deep { 4 + cx.ch.draw("depth.deep", 3) } else { cx.ch.draw("depth", 4) };
        let compact = cx.ch.draw("compact", 2) == 1;
        cx.st.inc(&format!("probe.depth{}{}", i + 1, if compact { ".compact" } else { ".sum" }));
        let f: fn(&mut RunCx, Which) -> Result<(), Violation> = match (i, compact) {
            (0, false) => h_s1,
            (1, false) => h_s2,
            (2, false) => h_s3,
            (3, false) => h_s4,
            (4, false) => h_s5,
            (5, false) => h_s6,
            (6, false) => h_s7,
            (0, true) => h_c1,
            (1, true) => h_c2,
            (2, true) => h_c3,
            (3, true) => h_c4,
            (4, true) => h_c5,
            (5, true) => h_c6,
            _ => h_c7,
        };
        f(cx, self.which)
    }
}

fn depth_probes() -> Vec<&'static str> {
    let mut v = vec![];
    for d in 1..=7 {
        for k in ["sum", "compact"] {
            v.push(&*Box::leak(format!("probe.depth{d}.{k}").into_boxed_str()));
        }
    }
    v
}

pub fn def_c12() -> CheckDef {
    let mut required = vec!["probe.sign_verify", "probe.update_at_last_period", "fault.restart_persist_reload"];
    required.extend(depth_probes());
    CheckDef {
        prop: "C12",
        level: "exploration",
        batches: vec![batch(Kes { which: Which::C12, deep: false }, 6_000, 400_000, false), batch(Kes { which: Which::C12, deep: true }, 600, 40_000, false)],
        rule: "per run one of the 14 Sum{1..7}Kes / Sum{1..7}CompactKes types with a seeded 32-byte seed is walked from period 0 to exhaustion (every period visited) with seeded interleaving of sign+verify (signature must verify at the current period under the original public key, fail at every other period - all of them for depth <= 4, 8 sampled ones for depth 5..7 - and round-trip through bytes), persist-and-reload restarts, period / public-key checks after every step; update must fail exactly at period 2^depth - 1; public key compared with an independent derivation of the seed tree; non-trivial = completed history with a non-neutral choice; distinct = distinct op traces",
        real: vec!["pallas_crypto::kes::summed_kes (sum_kes!/sum_compact_kes!), single_kes, common"],
        stub: vec![],
        assumptions: vec!["blake2b-256 and Ed25519 of pallas-crypto are shared with the oracle's tree derivation (Ed25519 through pallas_crypto::key::ed25519, not ed25519-dalek directly)", "single actor; the only injected event is persist-and-reload"],
        required,
        env_nondeterminism: "none (single-actor history simulation)",
    }
}

pub fn def_c13() -> CheckDef {
    let mut required = vec!["fault.compromise_reads_key_buffer", "fault.restart_persist_reload", "probe.update_at_last_period"];
    required.extend(depth_probes());
    CheckDef {
        prop: "C13",
        level: "exploration",
        batches: vec![batch(Kes { which: Which::C13, deep: false }, 8_000, 500_000, true), batch(Kes { which: Which::C13, deep: true }, 800, 50_000, true)],
        rule: "the same evolution histories (every period of every depth visited, restarts and signing interleaved); after every step the attacker reads the whole key buffer and an independent derivation of the seed tree (left = blake2b(1|s), right = blake2b(2|s)) gives the forbidden set at period t: the Ed25519 signing key of every period p < t and the seed of every tree node whose subtree starts before t; no forbidden 32-byte value may occur at any offset of the buffer; non-trivial = completed history with a non-neutral choice; distinct = distinct op traces",
        real: vec!["pallas_crypto::kes::summed_kes update_slice / keygen_slice, Seed::split_slice, single_kes"],
        stub: vec![],
        assumptions: vec!["only the key buffer the API owns is inspected (no demand on stack copies or on the caller's seed buffer)", "single actor; injected events: key-buffer disclosure after any step, persist-and-reload"],
        required,
        env_nondeterminism: "none (single-actor history simulation)",
    }
}
