//! C23 — node-to-node/client agents follow the mini-protocol state machines.
//! A real agent on one side of two real Plexers converses with a simulated peer (a raw
//! ChannelBuffer that sends what it is told and records what arrives).

use crate::core::*;
use crate::engines::net1::msgs::*;
use crate::engines::net1::*;
use crate::spec::proto::Agency;
use pallas_network::miniprotocols as mp;
use pallas_network::multiplexer::{ChannelBuffer, Plexer};
use std::time::Duration;

type R = Option<Result<(), String>>;
fn r<T, E: std::fmt::Display>(x: Result<T, E>) -> R {
    Some(x.map(|_| ()).map_err(|e| e.to_string()))
}

/// Adapter from spec transitions to one agent's API.
#[allow(async_fn_in_trait)]
pub trait Drv {
    const P: usize;
    const CLIENT: bool;
    const NAME: &'static str;
    fn new(ch: pallas_network::multiplexer::AgentChannel) -> Self;
    fn class(&self) -> u8;
    /// raw `send_message`; None when the API is not public
    async fn raw_send(&mut self, m: &M1) -> R;
    /// raw `recv_message` -> received message; None when the API is not public
    async fn raw_recv(&mut self) -> Option<Result<M1, String>>;
    /// high-level method sending message kind `k` (payload taken from `m`); None = no such method
    async fn hl_send(&mut self, k: u8, m: M1) -> R;
    /// request+reply compound methods (tx-monitor): drives the peer itself; returns the verdict and
    /// the spec state the agent must be in afterwards
    async fn compound(&mut self, _k: u8, _peer: &mut ChannelBuffer, _sh: &Sh) -> Option<(Result<(), String>, u8)> {
        None
    }
    /// high-level receive method for the current state; None = no such method
    async fn hl_recv(&mut self) -> R;
}

macro_rules! raw_impl {
    ($variant:ident) => {
        async fn raw_send(&mut self, m: &M1) -> R {
            match m {
                M1::$variant(x) => r(self.0.send_message(x).await),
                _ => None,
            }
        }
        async fn raw_recv(&mut self) -> Option<Result<M1, String>> {
            Some(self.0.recv_message().await.map(M1::$variant).map_err(|e| e.to_string()))
        }
    };
}

// ---------------------------------------------------------------- handshake (n2n)
pub struct HsClient(mp::handshake::N2NClient);
impl Drv for HsClient {
    const P: usize = HSN;
    const CLIENT: bool = true;
    const NAME: &'static str = "handshake.client";
    fn new(ch: pallas_network::multiplexer::AgentChannel) -> Self {
        HsClient(mp::handshake::Client::new(ch))
    }
    fn class(&self) -> u8 {
        match self.0.state() {
            mp::handshake::State::Propose => 0,
            mp::handshake::State::Confirm => 1,
            mp::handshake::State::Done => 2,
        }
    }
    raw_impl!(HsN);
    async fn hl_send(&mut self, k: u8, m: M1) -> R {
        match (k, m) {
            (0, M1::HsN(mp::handshake::Message::Propose(t))) => r(self.0.send_propose(t).await),
            _ => None,
        }
    }
    async fn hl_recv(&mut self) -> R {
        r(self.0.recv_while_confirm().await)
    }
}
pub struct HsServer(mp::handshake::N2NServer);
impl Drv for HsServer {
    const P: usize = HSN;
    const CLIENT: bool = false;
    const NAME: &'static str = "handshake.server";
    fn new(ch: pallas_network::multiplexer::AgentChannel) -> Self {
        HsServer(mp::handshake::Server::new(ch))
    }
    fn class(&self) -> u8 {
        match self.0.state() {
            mp::handshake::State::Propose => 0,
            mp::handshake::State::Confirm => 1,
            mp::handshake::State::Done => 2,
        }
    }
    raw_impl!(HsN);
    async fn hl_send(&mut self, k: u8, m: M1) -> R {
        match (k, m) {
            (1, M1::HsN(mp::handshake::Message::Accept(v, d))) => r(self.0.accept_version(v, d).await),
            (2, M1::HsN(mp::handshake::Message::Refuse(x))) => r(self.0.refuse(x).await),
            _ => None,
        }
    }
    async fn hl_recv(&mut self) -> R {
        r(self.0.receive_proposed_versions().await)
    }
}

// ---------------------------------------------------------------- chain-sync (n2n)
fn cs_class(s: &mp::chainsync::State) -> u8 {
    match s {
        mp::chainsync::State::Idle => 0,
        mp::chainsync::State::CanAwait => 1,
        mp::chainsync::State::MustReply => 2,
        mp::chainsync::State::Intersect => 3,
        mp::chainsync::State::Done => 4,
    }
}
pub struct CsClient(mp::chainsync::N2NClient);
impl Drv for CsClient {
    const P: usize = CSH;
    const CLIENT: bool = true;
    const NAME: &'static str = "chainsync.client";
    fn new(ch: pallas_network::multiplexer::AgentChannel) -> Self {
        CsClient(mp::chainsync::Client::new(ch))
    }
    fn class(&self) -> u8 {
        cs_class(self.0.state())
    }
    raw_impl!(CsH);
    async fn hl_send(&mut self, k: u8, m: M1) -> R {
        match (k, m) {
            (0, _) => r(self.0.send_request_next().await),
            (4, M1::CsH(mp::chainsync::Message::FindIntersect(p))) => r(self.0.send_find_intersect(p).await),
            (7, _) => r(self.0.send_done().await),
            _ => None,
        }
    }
    async fn hl_recv(&mut self) -> R {
        match self.0.state() {
            mp::chainsync::State::CanAwait => r(self.0.recv_while_can_await().await),
            mp::chainsync::State::MustReply => r(self.0.recv_while_must_reply().await),
            mp::chainsync::State::Intersect => r(self.0.recv_intersect_response().await),
            _ => None,
        }
    }
}
pub struct CsServer(mp::chainsync::N2NServer);
impl Drv for CsServer {
    const P: usize = CSH;
    const CLIENT: bool = false;
    const NAME: &'static str = "chainsync.server";
    fn new(ch: pallas_network::multiplexer::AgentChannel) -> Self {
        CsServer(mp::chainsync::Server::new(ch))
    }
    fn class(&self) -> u8 {
        cs_class(self.0.state())
    }
    async fn raw_send(&mut self, m: &M1) -> R {
        match m {
            M1::CsH(x) => r(self.0.send_message(x).await),
            _ => None,
        }
    }
    async fn raw_recv(&mut self) -> Option<Result<M1, String>> {
        None // recv_message is private on this agent
    }
    async fn hl_send(&mut self, k: u8, m: M1) -> R {
        use mp::chainsync::Message as M;
        match (k, m) {
            (1, _) => r(self.0.send_await_reply().await),
            (2, M1::CsH(M::RollForward(c, t))) => r(self.0.send_roll_forward(c, t).await),
            (3, M1::CsH(M::RollBackward(p, t))) => r(self.0.send_roll_backward(p, t).await),
            (5, M1::CsH(M::IntersectFound(p, t))) => r(self.0.send_intersect_found(p, t).await),
            (6, M1::CsH(M::IntersectNotFound(t))) => r(self.0.send_intersect_not_found(t).await),
            _ => None,
        }
    }
    async fn hl_recv(&mut self) -> R {
        r(self.0.recv_while_idle().await)
    }
}

// ---------------------------------------------------------------- block-fetch
fn bf_class(s: &mp::blockfetch::State) -> u8 {
    match s {
        mp::blockfetch::State::Idle => 0,
        mp::blockfetch::State::Busy => 1,
        mp::blockfetch::State::Streaming => 2,
        mp::blockfetch::State::Done => 3,
    }
}
pub struct BfClient(mp::blockfetch::Client);
impl Drv for BfClient {
    const P: usize = BF;
    const CLIENT: bool = true;
    const NAME: &'static str = "blockfetch.client";
    fn new(ch: pallas_network::multiplexer::AgentChannel) -> Self {
        BfClient(mp::blockfetch::Client::new(ch))
    }
    fn class(&self) -> u8 {
        bf_class(self.0.state())
    }
    raw_impl!(Bf);
    async fn hl_send(&mut self, k: u8, m: M1) -> R {
        match (k, m) {
            (0, M1::Bf(mp::blockfetch::Message::RequestRange { range })) => r(self.0.send_request_range(range).await),
            (1, _) => r(self.0.send_done().await),
            _ => None,
        }
    }
    async fn hl_recv(&mut self) -> R {
        match self.0.state() {
            mp::blockfetch::State::Busy => r(self.0.recv_while_busy().await),
            mp::blockfetch::State::Streaming => r(self.0.recv_while_streaming().await),
            _ => None,
        }
    }
}
pub struct BfServer(mp::blockfetch::Server);
impl Drv for BfServer {
    const P: usize = BF;
    const CLIENT: bool = false;
    const NAME: &'static str = "blockfetch.server";
    fn new(ch: pallas_network::multiplexer::AgentChannel) -> Self {
        BfServer(mp::blockfetch::Server::new(ch))
    }
    fn class(&self) -> u8 {
        bf_class(self.0.state())
    }
    raw_impl!(Bf);
    async fn hl_send(&mut self, k: u8, m: M1) -> R {
        match (k, m) {
            (2, _) => r(self.0.send_start_batch().await),
            (3, _) => r(self.0.send_no_blocks().await),
            (4, M1::Bf(mp::blockfetch::Message::Block { body })) => r(self.0.send_block(body).await),
            (5, _) => r(self.0.send_batch_done().await),
            _ => None,
        }
    }
    async fn hl_recv(&mut self) -> R {
        r(self.0.recv_while_idle().await)
    }
}

// ---------------------------------------------------------------- tx-submission
fn ts_class(s: &mp::txsubmission::State) -> u8 {
    match s {
        mp::txsubmission::State::Init => 0,
        mp::txsubmission::State::Idle => 1,
        mp::txsubmission::State::TxIdsBlocking => 2,
        mp::txsubmission::State::TxIdsNonBlocking => 3,
        mp::txsubmission::State::Txs => 4,
        mp::txsubmission::State::Done => 5,
    }
}
pub struct TsClient(mp::txsubmission::Client);
impl Drv for TsClient {
    const P: usize = TS;
    const CLIENT: bool = true;
    const NAME: &'static str = "txsubmission.client";
    fn new(ch: pallas_network::multiplexer::AgentChannel) -> Self {
        TsClient(mp::txsubmission::Client::new(ch))
    }
    fn class(&self) -> u8 {
        ts_class(self.0.state())
    }
    raw_impl!(Ts);
    async fn hl_send(&mut self, k: u8, m: M1) -> R {
        use mp::txsubmission::Message as M;
        match (k, m) {
            (0, _) => r(self.0.send_init().await),
            (3, M1::Ts(M::ReplyTxIds(x))) => r(self.0.reply_tx_ids(x).await),
            (5, M1::Ts(M::ReplyTxs(x))) => r(self.0.reply_txs(x).await),
            (6, _) => r(self.0.send_done().await),
            _ => None,
        }
    }
    async fn hl_recv(&mut self) -> R {
        r(self.0.next_request().await)
    }
}
pub struct TsServer(mp::txsubmission::Server);
impl Drv for TsServer {
    const P: usize = TS;
    const CLIENT: bool = false;
    const NAME: &'static str = "txsubmission.server";
    fn new(ch: pallas_network::multiplexer::AgentChannel) -> Self {
        TsServer(mp::txsubmission::Server::new(ch))
    }
    fn class(&self) -> u8 {
        ts_class(self.0.state())
    }
    raw_impl!(Ts);
    async fn hl_send(&mut self, k: u8, m: M1) -> R {
        use mp::txsubmission::Message as M;
        match (k, m) {
            (1, M1::Ts(M::RequestTxIds(_, a, q))) => r(self.0.acknowledge_and_request_tx_ids(true, a, q).await),
            (2, M1::Ts(M::RequestTxIds(_, a, q))) => r(self.0.acknowledge_and_request_tx_ids(false, a, q).await),
            (4, M1::Ts(M::RequestTxs(x))) => r(self.0.request_txs(x).await),
            _ => None,
        }
    }
    async fn hl_recv(&mut self) -> R {
        match self.0.state() {
            mp::txsubmission::State::Init => r(self.0.wait_for_init().await),
            _ => r(self.0.receive_next_reply().await),
        }
    }
}

// ---------------------------------------------------------------- keep-alive
fn ka_class(s: &mp::keepalive::State) -> u8 {
    match s {
        mp::keepalive::State::Client => 0,
        mp::keepalive::State::Server(_) => 1,
        mp::keepalive::State::Done => 2,
    }
}
pub struct KaClient(mp::keepalive::Client);
impl Drv for KaClient {
    const P: usize = KA;
    const CLIENT: bool = true;
    const NAME: &'static str = "keepalive.client";
    fn new(ch: pallas_network::multiplexer::AgentChannel) -> Self {
        KaClient(mp::keepalive::Client::new(ch))
    }
    fn class(&self) -> u8 {
        ka_class(self.0.state())
    }
    raw_impl!(Ka);
    async fn hl_send(&mut self, k: u8, _m: M1) -> R {
        match k {
            0 => r(self.0.send_keepalive_request().await),
            _ => None,
        }
    }
    async fn hl_recv(&mut self) -> R {
        r(self.0.recv_keepalive_response().await)
    }
}
pub struct KaServer(mp::keepalive::Server);
impl Drv for KaServer {
    const P: usize = KA;
    const CLIENT: bool = false;
    const NAME: &'static str = "keepalive.server";
    fn new(ch: pallas_network::multiplexer::AgentChannel) -> Self {
        KaServer(mp::keepalive::Server::new(ch))
    }
    fn class(&self) -> u8 {
        ka_class(self.0.state())
    }
    raw_impl!(Ka);
    async fn hl_send(&mut self, k: u8, _m: M1) -> R {
        match k {
            1 => r(self.0.send_keepalive_response().await),
            _ => None,
        }
    }
    async fn hl_recv(&mut self) -> R {
        r(self.0.recv_keepalive_request().await)
    }
}

// ---------------------------------------------------------------- peer-sharing
fn ps_class(s: &mp::peersharing::State) -> u8 {
    match s {
        mp::peersharing::State::Idle => 0,
        mp::peersharing::State::Busy(_) => 1,
        mp::peersharing::State::Done => 2,
    }
}
pub struct PsClient(mp::peersharing::Client);
impl Drv for PsClient {
    const P: usize = PS;
    const CLIENT: bool = true;
    const NAME: &'static str = "peersharing.client";
    fn new(ch: pallas_network::multiplexer::AgentChannel) -> Self {
        PsClient(mp::peersharing::Client::new(ch))
    }
    fn class(&self) -> u8 {
        ps_class(self.0.state())
    }
    raw_impl!(Ps);
    async fn hl_send(&mut self, k: u8, m: M1) -> R {
        match (k, m) {
            (0, M1::Ps(mp::peersharing::Message::ShareRequest(n))) => r(self.0.send_share_request(n).await),
            (2, _) => r(self.0.send_done().await),
            _ => None,
        }
    }
    async fn hl_recv(&mut self) -> R {
        r(self.0.recv_peer_addresses().await)
    }
}
pub struct PsServer(mp::peersharing::Server);
impl Drv for PsServer {
    const P: usize = PS;
    const CLIENT: bool = false;
    const NAME: &'static str = "peersharing.server";
    fn new(ch: pallas_network::multiplexer::AgentChannel) -> Self {
        PsServer(mp::peersharing::Server::new(ch))
    }
    fn class(&self) -> u8 {
        ps_class(self.0.state())
    }
    raw_impl!(Ps);
    async fn hl_send(&mut self, k: u8, m: M1) -> R {
        match (k, m) {
            (1, M1::Ps(mp::peersharing::Message::SharePeers(x))) => r(self.0.send_peer_addresses(x).await),
            _ => None,
        }
    }
    async fn hl_recv(&mut self) -> R {
        r(self.0.recv_share_request().await)
    }
}

// ---------------------------------------------------------------- local-state-query
fn lsq_class(s: &mp::localstate::State) -> u8 {
    match s {
        mp::localstate::State::Idle => 0,
        mp::localstate::State::Acquiring => 1,
        mp::localstate::State::Acquired => 2,
        mp::localstate::State::Querying => 3,
        mp::localstate::State::Done => 4,
    }
}
pub struct LsqClient(mp::localstate::Client);
impl Drv for LsqClient {
    const P: usize = LSQ;
    const CLIENT: bool = true;
    const NAME: &'static str = "localstate.client";
    fn new(ch: pallas_network::multiplexer::AgentChannel) -> Self {
        LsqClient(mp::localstate::Client::new(ch))
    }
    fn class(&self) -> u8 {
        lsq_class(self.0.state())
    }
    raw_impl!(Lsq);
    async fn hl_send(&mut self, k: u8, m: M1) -> R {
        use mp::localstate::Message as M;
        match (k, m) {
            (0, M1::Lsq(M::Acquire(p))) => r(self.0.send_acquire(p).await),
            (3, M1::Lsq(M::Query(q))) => r(self.0.send_query(q).await),
            (5, M1::Lsq(M::ReAcquire(p))) => r(self.0.send_reacquire(p).await),
            (6, _) => r(self.0.send_release().await),
            (7, _) => r(self.0.send_done().await),
            _ => None,
        }
    }
    async fn hl_recv(&mut self) -> R {
        match self.0.state() {
            mp::localstate::State::Acquiring => r(self.0.recv_while_acquiring().await),
            mp::localstate::State::Querying => r(self.0.recv_while_querying().await),
            _ => None,
        }
    }
}
pub struct LsqServer(mp::localstate::Server);
impl Drv for LsqServer {
    const P: usize = LSQ;
    const CLIENT: bool = false;
    const NAME: &'static str = "localstate.server";
    fn new(ch: pallas_network::multiplexer::AgentChannel) -> Self {
        LsqServer(mp::localstate::Server::new(ch))
    }
    fn class(&self) -> u8 {
        lsq_class(self.0.state())
    }
    raw_impl!(Lsq);
    async fn hl_send(&mut self, k: u8, m: M1) -> R {
        use mp::localstate::Message as M;
        match (k, m) {
            (1, M1::Lsq(M::Failure(f))) => r(self.0.send_failure(f).await),
            (2, _) => r(self.0.send_acquired().await),
            (4, M1::Lsq(M::Result(x))) => r(self.0.send_result(x).await),
            _ => None,
        }
    }
    async fn hl_recv(&mut self) -> R {
        match self.0.state() {
            mp::localstate::State::Idle => r(self.0.recv_while_idle().await),
            mp::localstate::State::Acquired => r(self.0.recv_while_acquired().await),
            _ => None,
        }
    }
}

// ---------------------------------------------------------------- local-tx-submission (raw API private)
fn lts_class(s: &mp::localtxsubmission::State) -> u8 {
    match s {
        mp::localtxsubmission::State::Idle => 0,
        mp::localtxsubmission::State::Busy => 1,
        mp::localtxsubmission::State::Done => 2,
    }
}
pub struct LtsClient(mp::localtxsubmission::Client);
impl Drv for LtsClient {
    const P: usize = LTS;
    const CLIENT: bool = true;
    const NAME: &'static str = "localtxsubmission.client";
    fn new(ch: pallas_network::multiplexer::AgentChannel) -> Self {
        LtsClient(mp::localtxsubmission::Client::new(ch))
    }
    fn class(&self) -> u8 {
        lts_class(self.0.state())
    }
    async fn raw_send(&mut self, _m: &M1) -> R {
        None
    }
    async fn raw_recv(&mut self) -> Option<Result<M1, String>> {
        None
    }
    async fn hl_send(&mut self, k: u8, m: M1) -> R {
        match (k, m) {
            (0, M1::Lts(mp::localtxsubmission::Message::SubmitTx(tx))) => r(self.0.send_submit_tx(tx).await),
            (3, _) => r(self.0.terminate_gracefully().await),
            _ => None,
        }
    }
    async fn hl_recv(&mut self) -> R {
        r(self.0.recv_submit_tx_response().await)
    }
}
pub struct LtsServer(mp::localtxsubmission::Server);
impl Drv for LtsServer {
    const P: usize = LTS;
    const CLIENT: bool = false;
    const NAME: &'static str = "localtxsubmission.server";
    fn new(ch: pallas_network::multiplexer::AgentChannel) -> Self {
        LtsServer(mp::localtxsubmission::Server::new(ch))
    }
    fn class(&self) -> u8 {
        lts_class(self.0.state())
    }
    async fn raw_send(&mut self, _m: &M1) -> R {
        None
    }
    async fn raw_recv(&mut self) -> Option<Result<M1, String>> {
        None
    }
    async fn hl_send(&mut self, k: u8, _m: M1) -> R {
        match k {
            1 => r(self.0.send_submit_tx_response(mp::localtxsubmission::Response::Accepted).await),
            _ => None, // RejectTx: the reason encoders are a C22 known finding; not driven here
        }
    }
    async fn hl_recv(&mut self) -> R {
        r(self.0.recv_next_request().await)
    }
}

// ---------------------------------------------------------------- local-tx-monitor (client only)
pub struct TmClient(mp::txmonitor::Client, u8);
impl Drv for TmClient {
    const P: usize = TM;
    const CLIENT: bool = true;
    const NAME: &'static str = "txmonitor.client";
    fn new(ch: pallas_network::multiplexer::AgentChannel) -> Self {
        TmClient(mp::txmonitor::Client::new(ch), 0)
    }
    fn class(&self) -> u8 {
        use crate::spec::proto::ltm;
        match self.0.state() {
            mp::txmonitor::State::Idle => ltm::IDLE,
            mp::txmonitor::State::Acquiring => ltm::ACQUIRING,
            mp::txmonitor::State::Acquired => ltm::ACQUIRED,
            // pallas has one Busy state; which reply is awaited is what the last raw request was
            mp::txmonitor::State::Busy => self.1,
            mp::txmonitor::State::Done => ltm::DONE,
        }
    }
    raw_impl!(Tm);
    async fn hl_send(&mut self, k: u8, _m: M1) -> R {
        use crate::spec::proto::ltm;
        match k {
            ltm::M_RELEASE => r(self.0.release().await),
            _ => None, // the other requests exist only as request+reply compounds (acquire, query_*)
        }
    }
    async fn hl_recv(&mut self) -> R {
        None
    }
    async fn compound(&mut self, k: u8, peer: &mut ChannelBuffer, sh: &Sh) -> Option<(Result<(), String>, u8)> {
        use crate::spec::proto::ltm;
        // which reply the simulated server gives: the matching one, or (one time in five) another reply kind
        let (reply_kind, ok_state) = match k {
            ltm::M_ACQUIRE if self.class() == ltm::IDLE => (ltm::M_ACQUIRED, ltm::ACQUIRED),
            ltm::M_NEXT_TX => (ltm::M_REPLY_NEXT_TX, ltm::ACQUIRED),
            ltm::M_HAS_TX => (ltm::M_REPLY_HAS_TX, ltm::ACQUIRED),
            ltm::M_GET_SIZES => (ltm::M_REPLY_GET_SIZES, ltm::ACQUIRED),
            _ => return None,
        };
        let wrong = k != ltm::M_ACQUIRE && chance(sh, "tm.wrong_reply", 1, 5);
        let rk = if wrong { *[ltm::M_REPLY_NEXT_TX, ltm::M_REPLY_HAS_TX, ltm::M_REPLY_GET_SIZES].iter().find(|x| **x != reply_kind).unwrap() } else { reply_kind };
        let reply = { let mut g = sh.lock().unwrap(); gen1(TM, rk, &mut g.ch) };
        let before = self.class();
        // pallas has a single Busy state: remember which reply the spec state awaits
        self.1 = match k {
            ltm::M_NEXT_TX => ltm::BUSY_NEXT,
            ltm::M_HAS_TX => ltm::BUSY_HAS,
            ltm::M_GET_SIZES => ltm::BUSY_SIZES,
            _ => self.1,
        };
        let serve = async {
            let got = tokio::time::timeout(Duration::from_secs(5), recv1(TM, peer)).await;
            let _ = send1(peer, &reply).await;
            got
        };
        let (res, got) = match k {
            ltm::M_ACQUIRE => { let (a, b) = tokio::join!(self.0.acquire(), serve); (a.map(|_| ()).map_err(|e| e.to_string()), b) }
            ltm::M_NEXT_TX => { let (a, b) = tokio::join!(self.0.query_next_tx(), serve); (a.map(|_| ()).map_err(|e| e.to_string()), b) }
            ltm::M_HAS_TX => { let (a, b) = tokio::join!(self.0.query_has_tx("00".repeat(32)), serve); (a.map(|_| ()).map_err(|e| e.to_string()), b) }
            _ => { let (a, b) = tokio::join!(self.0.query_size_and_capacity(), serve); (a.map(|_| ()).map_err(|e| e.to_string()), b) }
        };
        if !matches!(got, Ok(Ok(ref m)) if m.kind() == k || (k == ltm::M_ACQUIRE && m.kind() == ltm::M_ACQUIRE)) {
            return Some((Err(format!("the request did not reach the peer as kind {k}: {:?}", got.map(|x| x.map(|m| m.render())))), before));
        }
        if wrong {
            inc(sh, "fault.byzantine_peer_message_rejected");
            // a non-matching reply must be rejected; the request was sent, so the spec state is the Busy state
            return Some((match res { Err(_) => Ok(()), Ok(()) => Err("a reply of another kind was accepted".into()) }, self.class()));
        }
        Some((res, ok_state))
    }
}

// ---------------------------------------------------------------- N2C instantiations of the generic agents
pub struct HsClientC(mp::handshake::N2CClient);
impl Drv for HsClientC {
    const P: usize = HSC;
    const CLIENT: bool = true;
    const NAME: &'static str = "handshake-n2c.client";
    fn new(ch: pallas_network::multiplexer::AgentChannel) -> Self {
        HsClientC(mp::handshake::Client::new(ch))
    }
    fn class(&self) -> u8 {
        match self.0.state() {
            mp::handshake::State::Propose => 0,
            mp::handshake::State::Confirm => 1,
            mp::handshake::State::Done => 2,
        }
    }
    raw_impl!(HsC);
    async fn hl_send(&mut self, k: u8, m: M1) -> R {
        match (k, m) {
            (0, M1::HsC(mp::handshake::Message::Propose(t))) => r(self.0.send_propose(t).await),
            _ => None,
        }
    }
    async fn hl_recv(&mut self) -> R {
        r(self.0.recv_while_confirm().await)
    }
}
pub struct HsServerC(mp::handshake::N2CServer);
impl Drv for HsServerC {
    const P: usize = HSC;
    const CLIENT: bool = false;
    const NAME: &'static str = "handshake-n2c.server";
    fn new(ch: pallas_network::multiplexer::AgentChannel) -> Self {
        HsServerC(mp::handshake::Server::new(ch))
    }
    fn class(&self) -> u8 {
        match self.0.state() {
            mp::handshake::State::Propose => 0,
            mp::handshake::State::Confirm => 1,
            mp::handshake::State::Done => 2,
        }
    }
    raw_impl!(HsC);
    async fn hl_send(&mut self, k: u8, m: M1) -> R {
        match (k, m) {
            (1, M1::HsC(mp::handshake::Message::Accept(v, d))) => r(self.0.accept_version(v, d).await),
            (2, M1::HsC(mp::handshake::Message::Refuse(x))) => r(self.0.refuse(x).await),
            _ => None,
        }
    }
    async fn hl_recv(&mut self) -> R {
        r(self.0.receive_proposed_versions().await)
    }
}
pub struct CsClientC(mp::chainsync::N2CClient);
impl Drv for CsClientC {
    const P: usize = CSB;
    const CLIENT: bool = true;
    const NAME: &'static str = "chainsync-n2c.client";
    fn new(ch: pallas_network::multiplexer::AgentChannel) -> Self {
        CsClientC(mp::chainsync::Client::new(ch))
    }
    fn class(&self) -> u8 {
        cs_class(self.0.state())
    }
    raw_impl!(CsB);
    async fn hl_send(&mut self, k: u8, m: M1) -> R {
        match (k, m) {
            (0, _) => r(self.0.send_request_next().await),
            (4, M1::CsB(mp::chainsync::Message::FindIntersect(p))) => r(self.0.send_find_intersect(p).await),
            (7, _) => r(self.0.send_done().await),
            _ => None,
        }
    }
    async fn hl_recv(&mut self) -> R {
        match self.0.state() {
            mp::chainsync::State::CanAwait => r(self.0.recv_while_can_await().await),
            mp::chainsync::State::MustReply => r(self.0.recv_while_must_reply().await),
            mp::chainsync::State::Intersect => r(self.0.recv_intersect_response().await),
            _ => None,
        }
    }
}
pub struct CsServerC(mp::chainsync::N2CServer);
impl Drv for CsServerC {
    const P: usize = CSB;
    const CLIENT: bool = false;
    const NAME: &'static str = "chainsync-n2c.server";
    fn new(ch: pallas_network::multiplexer::AgentChannel) -> Self {
        CsServerC(mp::chainsync::Server::new(ch))
    }
    fn class(&self) -> u8 {
        cs_class(self.0.state())
    }
    async fn raw_send(&mut self, m: &M1) -> R {
        match m {
            M1::CsB(x) => r(self.0.send_message(x).await),
            _ => None,
        }
    }
    async fn raw_recv(&mut self) -> Option<Result<M1, String>> {
        None
    }
    async fn hl_send(&mut self, k: u8, m: M1) -> R {
        use mp::chainsync::Message as M;
        match (k, m) {
            (1, _) => r(self.0.send_await_reply().await),
            (2, M1::CsB(M::RollForward(c, t))) => r(self.0.send_roll_forward(c, t).await),
            (3, M1::CsB(M::RollBackward(p, t))) => r(self.0.send_roll_backward(p, t).await),
            (5, M1::CsB(M::IntersectFound(p, t))) => r(self.0.send_intersect_found(p, t).await),
            (6, M1::CsB(M::IntersectNotFound(t))) => r(self.0.send_intersect_not_found(t).await),
            _ => None,
        }
    }
    async fn hl_recv(&mut self) -> R {
        r(self.0.recv_while_idle().await)
    }
}

// ---------------------------------------------------------------- the conversation

pub struct Conv<D: Drv>(pub std::marker::PhantomData<D>);
unsafe impl<D: Drv> Sync for Conv<D> {}
unsafe impl<D: Drv> Send for Conv<D> {}

fn dont_care(p: usize, s: u8, k: u8) -> bool {
    use crate::spec::proto::ltm;
    // local-tx-submission MsgRejectTx: the reject-reason codecs are a recorded C22 finding (they do not
    // round-trip), so a conversation cannot carry them; the variant is left out here
    if p == LTS && k == crate::spec::proto::lts::M_REJECT {
        return true;
    }
    // tx-monitor: MsgAwaitAcquire shares MsgAcquire's wire encoding; pallas models both
    p == TM && s == ltm::ACQUIRED && (k == ltm::M_ACQUIRE || k == ltm::M_AWAIT_ACQUIRE)
}

async fn peer_expect(peer: &mut ChannelBuffer, p: usize, want: &str, what: &str) -> Result<(), Violation> {
    match tokio::time::timeout(Duration::from_secs(5), recv1(p, peer)).await {
        Ok(Ok(m)) if m.render() == want => Ok(()),
        Ok(Ok(m)) => Err(Violation::new("wire", format!("{what}:peer-got-different-message"), format!("{what}: peer received {} instead of {}", m.render(), want))),
        Ok(Err(e)) => Err(Violation::new("wire", format!("{what}:peer-recv-error"), format!("{what}: {e}"))),
        Err(_) => Err(Violation::new("wire", format!("{what}:accepted-but-nothing-sent"), format!("{what}: the agent reported Ok but nothing reached the peer"))),
    }
}

async fn converse<D: Drv>(sh: Sh, mut d: D, mut peer: ChannelBuffer, known: std::sync::Arc<std::collections::HashSet<String>>, prop: &'static str) -> Result<(), Violation> {
    let p = D::P;
    let spec = SPECS1[p];
    let ours = if D::CLIENT { Agency::Client } else { Agency::Server };
    let steps = 1 + draw(&sh, "conv.steps", 40);
    let mut tolerated: Vec<Violation> = vec![];
    // value-level side conditions are don't-care: the simulated server echoes the keep-alive cookie
    let mut last_cookie: u16 = 0;
    macro_rules! report {
        ($v:expr) => {{
            let v: Violation = $v;
            let mut g = sh.lock().unwrap();
            g.tr.note(|| format!("violation: {}", v.message));
            drop(g);
            tolerated.push(v);
        }};
    }
    'conv: for _ in 0..steps {
        let s = d.class();
        let we = spec.agency(s) == ours;
        let nobody = spec.agency(s) == Agency::Nobody;
        ev(&sh, "state", &[p as u64, s as u64]);
        // ---- 1. raw send sweep: every message variant through send_message
        for k in 0..spec.msgs.len() as u8 {
            if dont_care(p, s, k) {
                continue;
            }
            let m = { let mut g = sh.lock().unwrap(); gen1(p, k, &mut g.ch) };
            let want_ok = we && spec.next(s, k).is_some();
            let tag = format!("{}:{}+send:{}", D::NAME, spec.sname(s), spec.mname(k));
            let Some(res) = d.raw_send(&m).await else { break };
            { let mut g = sh.lock().unwrap(); g.st.state(mix(hash_str(D::NAME), ((s as u64) << 16) | ((k as u64) << 8) | 1)); g.st.inc("probe.raw_send_verdicts"); }
            match (want_ok, res) {
                (true, Ok(())) => peer_expect(&mut peer, p, &m.render(), &tag).await?,
                (false, Err(_)) => {}
                (true, Err(e)) => report!(Violation::new("agency", format!("{tag}:rejected-but-permitted"), format!("{tag}: the specification lets this role send it here, send_message returned Err({e})"))),
                (false, Ok(())) => {
                    report!(Violation::new("agency", format!("{tag}:accepted-but-forbidden"), format!("{tag}: forbidden by the specification, send_message returned Ok")));
                    let _ = tokio::time::timeout(Duration::from_secs(1), recv1(p, &mut peer)).await;
                }
            }
            if d.class() != s {
                report!(Violation::new("state", format!("{tag}:state-changed-by-raw-send"), format!("{tag}: state changed to {}", spec.sname(d.class()))));
                break 'conv;
            }
        }
        // ---- 2. raw receive sweep
        if we {
            // agency is ours: recv_message must refuse at once (nothing is on the wire)
            if let Ok(Some(res)) = tokio::time::timeout(Duration::from_secs(1), d.raw_recv()).await {
                inc(&sh, "probe.raw_recv_verdicts");
                if res.is_ok() {
                    report!(Violation::new("agency", format!("{}:{}+recv:while-agency-ours", D::NAME, spec.sname(s)), "recv_message returned a message while the agent holds agency".to_string()));
                }
            }
        } else {
            for k in 0..spec.msgs.len() as u8 {
                if dont_care(p, s, k) {
                    continue;
                }
                let m = { let mut g = sh.lock().unwrap(); gen1(p, k, &mut g.ch) };
                // does pallas expose recv_message on this agent? probe with the first message only after sending it
                let want_ok = !nobody && spec.next(s, k).is_some();
                let tag = format!("{}:{}+recv:{}", D::NAME, spec.sname(s), spec.mname(k));
                if m.encode().is_err() { continue; }
                // send first, then receive; if the API is private nothing may be left on the wire, so ask first
                if k == 0 {
                    // cheap capability probe: agents with private recv_message return None without touching the wire
                    if matches!(D::NAME, "chainsync.server" | "chainsync-n2c.server" | "localtxsubmission.client" | "localtxsubmission.server") {
                        break;
                    }
                }
                send1(&mut peer, &m).await.map_err(|e| Violation::new("wire", "peer-send-failed", e.to_string()))?;
                let res = match tokio::time::timeout(Duration::from_secs(5), d.raw_recv()).await {
                    Ok(Some(x)) => x,
                    Ok(None) => break,
                    Err(_) => {
                        report!(Violation::new("agency", format!("{tag}:no-verdict"), format!("{tag}: recv_message did not return although a complete message was delivered")));
                        break 'conv;
                    }
                };
                { let mut g = sh.lock().unwrap(); g.st.state(mix(hash_str(D::NAME), ((s as u64) << 16) | ((k as u64) << 8) | 2)); g.st.inc("probe.raw_recv_verdicts"); }
                match (want_ok, res) {
                    (true, Ok(got)) => {
                        if got.render() != m.render() {
                            report!(Violation::new("wire", format!("{tag}:received-different-message"), format!("{tag}: got {} want {}", got.render(), m.render())));
                        }
                    }
                    (false, Err(_)) => {}
                    (true, Err(e)) => report!(Violation::new("agency", format!("{tag}:rejected-but-permitted"), format!("{tag}: the peer may send it here, recv_message returned Err({e})"))),
                    (false, Ok(_)) => report!(Violation::new("agency", format!("{tag}:accepted-but-forbidden"), format!("{tag}: the peer may not send it here, recv_message returned Ok"))),
                }
                if d.class() != s {
                    report!(Violation::new("state", format!("{tag}:state-changed-by-raw-recv"), format!("{tag}: state changed to {}", spec.sname(d.class()))));
                    break 'conv;
                }
            }
        }
        if nobody {
            break;
        }
        // ---- 3. advance through the high-level API
        let legal = spec.legal(s);
        let byz = chance(&sh, "conv.byzantine", 1, 6);
        let k = if byz { draw(&sh, "conv.any", spec.msgs.len() as u64) as u8 } else { legal[draw(&sh, "conv.legal", legal.len() as u64) as usize].0 };
        if dont_care(p, s, k) {
            continue;
        }
        let mut want = spec.next(s, k);
        let mut m = { let mut g = sh.lock().unwrap(); gen1(p, k, &mut g.ch) };
        if let M1::Ka(mp::keepalive::Message::ResponseKeepAlive(c)) = &mut m {
            *c = last_cookie;
            // one response in four echoes a wrong cookie: the specification's side condition fails, so the
            // message is one of "everything else" - an error and no state change
            if !we && want.is_some() && chance(&sh, "conv.wrong_cookie", 1, 4) {
                *c = last_cookie.wrapping_add(1 + draw(&sh, "conv.wrong_cookie.delta", 3) as u16);
                want = None;
                inc(&sh, "fault.keepalive_wrong_cookie");
            }
        }
        let rendered = m.render();
        if we {
            let tag = format!("{}:{}+{}", D::NAME, spec.sname(s), spec.mname(k));
            ev(&sh, "hl_send", &[p as u64, s as u64, k as u64]);
            if want.is_some() {
                if let Some((res, expect)) = d.compound(k, &mut peer, &sh).await {
                    inc(&sh, "probe.high_level_moves");
                    match res {
                        Ok(()) if d.class() == expect => continue,
                        Ok(()) => {
                            report!(Violation::new("state", format!("{tag}:wrong-successor:{}", spec.sname(d.class())), format!("{tag} (compound): expected {}, agent is in {}", spec.sname(expect), spec.sname(d.class()))));
                            break 'conv;
                        }
                        Err(e) => {
                            report!(Violation::new("agency", format!("{tag}:compound-failed"), format!("{tag}: {e}")));
                            break 'conv;
                        }
                    }
                }
            }
            // A caller may give up on a send (time-out, select! branch): the future is polled once and, if
            // still pending, dropped. Either the message is not on the wire and the agent has not moved, or
            // it is on the wire and the agent is in the successor state - never one without the other.
            let mut early: Option<R> = None;
            // (a second copy of the message through its own codec: not every message type is Clone)
            let copy = m.encode().ok().filter(|b| b.len() < 60_000).and_then(|b| M1::decode(p, &b).ok());
            if let Some(m2) = copy.filter(|_| want.is_some() && chance(&sh, "conv.cancel_send", 1, 4)) {
                inc(&sh, "fault.send_polled_once_then_dropped_if_pending");
                let polled = {
                    let fut = d.hl_send(k, m2);
                    tokio::pin!(fut);
                    futures::poll!(fut.as_mut())
                };
                match polled {
                    std::task::Poll::Ready(r) => early = Some(r),
                    std::task::Poll::Pending => {
                        inc(&sh, "probe.send_future_was_pending_and_dropped");
                        let delivered = matches!(tokio::time::timeout(Duration::from_millis(500), recv1(p, &mut peer)).await, Ok(Ok(_)));
                        let n = want.unwrap();
                        match (delivered, d.class()) {
                            (true, c) if c == n => continue,
                            (true, c) => {
                                report!(Violation::new("state", format!("{tag}:cancelled-send-delivered-but-state-{}", spec.sname(c)), format!("{tag}: the send future was dropped after one poll; the message reached the peer but the agent is in {} instead of {}", spec.sname(c), spec.sname(n))));
                                break 'conv;
                            }
                            (false, c) if c == s => {}
                            (false, c) => {
                                report!(Violation::new("state", format!("{tag}:cancelled-send-not-delivered-but-state-{}", spec.sname(c)), format!("{tag}: the send future was dropped after one poll; nothing reached the peer but the agent moved to {}", spec.sname(c))));
                                break 'conv;
                            }
                        }
                    }
                }
            }
            let res = match early {
                Some(r) => r,
                None => d.hl_send(k, m).await,
            };
            let Some(res) = res else {
                // no high-level method for this move; if it is a terminal legal move the conversation ends here
                inc(&sh, "probe.no_high_level_method");
                if want.is_some() && spec.is_done(want.unwrap()) { break; }
                continue;
            };
            inc(&sh, "probe.high_level_moves");
            match (want, res) {
                (Some(n), Ok(())) => {
                    // payload of compound methods may differ from `m` (e.g. generated cookie): only the kind is checked
                    match tokio::time::timeout(Duration::from_secs(5), recv1(p, &mut peer)).await {
                        Ok(Ok(got)) if got.kind() == k => {
                            if let M1::Ka(mp::keepalive::Message::KeepAlive(c)) = &got {
                                last_cookie = *c;
                            }
                        }
                        Ok(Ok(got)) => report!(Violation::new("wire", format!("{tag}:sent-different-kind"), format!("{tag}: peer received {}", got.render()))),
                        _ => report!(Violation::new("wire", format!("{tag}:accepted-but-nothing-sent"), format!("{tag}: Ok but nothing reached the peer ({rendered})"))),
                    }
                    if d.class() != n {
                        report!(Violation::new("state", format!("{tag}:wrong-successor:{}", spec.sname(d.class())), format!("{tag}: the specification prescribes {}, the agent is in {}", spec.sname(n), spec.sname(d.class()))));
                        break 'conv;
                    }
                }
                (None, Err(_)) => {
                    inc(&sh, "fault.illegal_local_move_rejected");
                    if d.class() != s {
                        report!(Violation::new("state", format!("{tag}:state-changed-on-rejected-send"), format!("{tag}: rejected, yet the state moved to {}", spec.sname(d.class()))));
                        break 'conv;
                    }
                }
                (Some(_), Err(e)) => {
                    report!(Violation::new("agency", format!("{tag}:high-level-rejected-but-permitted"), format!("{tag}: {e}")));
                    break 'conv;
                }
                (None, Ok(())) => {
                    report!(Violation::new("agency", format!("{tag}:high-level-accepted-but-forbidden"), format!("{tag}: forbidden move accepted")));
                    break 'conv;
                }
            }
        } else {
            let tag = format!("{}:{}+recv:{}", D::NAME, spec.sname(s), spec.mname(k));
            ev(&sh, "peer_send", &[p as u64, s as u64, k as u64]);
            if m.encode().is_err() { continue; }
            send1(&mut peer, &m).await.map_err(|e| Violation::new("wire", "peer-send-failed", e.to_string()))?;
            let res = match tokio::time::timeout(Duration::from_secs(5), d.hl_recv()).await {
                Ok(Some(x)) => x,
                Ok(None) => {
                    // no high-level receive here: drain through the raw API so the wire stays in step
                    let _ = tokio::time::timeout(Duration::from_secs(1), d.raw_recv()).await;
                    inc(&sh, "probe.no_high_level_method");
                    continue;
                }
                Err(_) => {
                    report!(Violation::new("agency", format!("{tag}:no-verdict"), format!("{tag}: the receive method did not return although a complete message was delivered")));
                    break 'conv;
                }
            };
            inc(&sh, "probe.high_level_moves");
            let after = d.class();
            // localstate client reports MsgFailure as an Err value while taking the transition
            let err_is_value = p == LSQ && D::CLIENT && k == crate::spec::proto::lsq::M_FAILURE;
            match (want, res) {
                (Some(n), res) if res.is_ok() || err_is_value => {
                    if after != n {
                        report!(Violation::new("state", format!("{tag}:wrong-successor:{}", spec.sname(after)), format!("{tag}: the specification prescribes {}, the agent is in {}", spec.sname(n), spec.sname(after))));
                        break 'conv;
                    }
                }
                (Some(_), Err(e)) => {
                    report!(Violation::new("agency", format!("{tag}:high-level-rejected-but-permitted"), format!("{tag}: {e}")));
                    break 'conv;
                }
                (None, Err(_)) => {
                    inc(&sh, "fault.byzantine_peer_message_rejected");
                    if after != s {
                        report!(Violation::new("state", format!("{tag}:state-changed-on-rejected-recv"), format!("{tag}: rejected, yet the state moved to {}", spec.sname(after))));
                        break 'conv;
                    }
                }
                (None, Ok(())) => {
                    report!(Violation::new("agency", format!("{tag}:high-level-accepted-but-forbidden"), format!("{tag}: forbidden inbound message accepted")));
                    break 'conv;
                }
                _ => {}
            }
        }
    }
    sh.lock().unwrap().st.progress = true;
    // an unknown violation takes precedence over a recorded one
    if let Some(i) = tolerated.iter().position(|v| !known.contains(&v.signature(prop))) {
        return Err(tolerated.swap_remove(i));
    }
    match tolerated.into_iter().next() {
        Some(v) => Err(v),
        None => Ok(()),
    }
}

impl<D: Drv + 'static> Scenario for Conv<D> {
    fn name(&self) -> &'static str {
        D::NAME
    }
    fn run(&self, cx: &mut RunCx) -> Result<(), Violation> {
        let pcfg = PipeCfg { stall: (cx.ch.draw("cfg.stall", 3), 8), short: (cx.ch.draw("cfg.short", 3), 4), capacity: *cx.ch.pick("cfg.capacity", &[1usize << 20, 4096, 64]), ..Default::default() };
        let tolerate = cx.tolerate.clone();
        let tol2 = cx.tolerate.clone();
        let prop = cx.prop;
        let res = run_sim(cx, |sh| async move {
            let (wa, rb) = pipe("a2b", &sh, &pcfg);
            let (wb, ra) = pipe("b2a", &sh, &pcfg);
            let mut pa = Plexer::new(bearer1(ra, wa));
            let mut pb = Plexer::new(bearer1(rb, wb));
            let id = WIRE_ID[D::P];
            let (agent_ch, peer_ch) = if D::CLIENT { (pa.subscribe_client(id), pb.subscribe_server(id)) } else { (pa.subscribe_server(id), pb.subscribe_client(id)) };
            let (ra_, rb_) = (pa.spawn(), pb.spawn());
            let d = D::new(agent_ch);
            let out = converse(sh.clone(), d, ChannelBuffer::new(peer_ch), tol2.clone(), prop).await;
            ra_.abort().await;
            rb_.abort().await;
            out
        });
        // known findings are stepped over by ending the conversation (reported once per run)
        match res {
            Err(v) if tolerate.contains(&v.signature(prop)) => cx.report(v),
            other => other,
        }
    }
}

pub fn def() -> CheckDef {
    fn b<D: Drv + 'static>(q: u64, t: u64) -> BatchSpec {
        batch(Conv::<D>(std::marker::PhantomData), q, t, true)
    }
    CheckDef {
        prop: "C23",
        level: "exploration",
        batches: vec![
            b::<HsClient>(1500, 60_000),
            b::<HsServer>(1500, 60_000),
            b::<CsClient>(2500, 120_000),
            b::<CsServer>(2500, 120_000),
            b::<BfClient>(2000, 100_000),
            b::<BfServer>(2000, 100_000),
            b::<TsClient>(2500, 120_000),
            b::<TsServer>(2500, 120_000),
            b::<KaClient>(1500, 60_000),
            b::<KaServer>(1500, 60_000),
            b::<PsClient>(1500, 60_000),
            b::<PsServer>(1500, 60_000),
            b::<LsqClient>(2500, 120_000),
            b::<LsqServer>(2500, 120_000),
            b::<LtsClient>(1500, 60_000),
            b::<LtsServer>(1500, 60_000),
            b::<TmClient>(2000, 100_000),
            b::<HsClientC>(800, 40_000),
            b::<HsServerC>(800, 40_000),
            b::<CsClientC>(1200, 60_000),
            b::<CsServerC>(1200, 60_000),
        ],
        rule: "a real agent (21 protocol x role agents of the original stack, N2N and N2C) on one of two real Plexers converses over seeded pipes with a simulated peer for up to 40 steps; at every state reached: every message variant is offered to send_message (verdict must be Ok exactly when the role holds agency and the spec has the transition, an accepted message must reach the peer unchanged, the state must not move) and every variant is delivered to recv_message (verdict Ok exactly when the peer may send it); then the conversation advances through the high-level method for a legal move (state must equal the spec successor) or, one time in six, an illegal local move / illegal peer message (must be rejected with the state unchanged); abstract states = (agent, state, message, direction) triples judged; non-trivial = completed conversation with a non-neutral choice; distinct = distinct traces",
        real: vec!["pallas_network::miniprotocols::{handshake, chainsync, blockfetch, txsubmission, keepalive, peersharing, localstate, localtxsubmission, txmonitor}::{Client, Server}", "Plexer/Muxer/Demuxer/ChannelBuffer", "all message codecs"],
        stub: vec!["remote peer (raw ChannelBuffer driven by the spec automaton, one move in six Byzantine)", "socket (SimPipe)"],
        assumptions: vec![
            "tx-monitor has no server agent; local-msg-submission / local-msg-notification are not among the protocols the statement lists",
            "agents whose send_message/recv_message are private (chainsync server recv, local-tx-submission) are judged through their high-level methods only",
            "tx-monitor MsgAwaitAcquire/MsgAcquire in Acquired are don't-care (shared wire encoding)",
        ],
        required: vec!["probe.raw_send_verdicts", "probe.raw_recv_verdicts", "probe.high_level_moves", "fault.illegal_local_move_rejected", "fault.byzantine_peer_message_rejected", "fault.keepalive_wrong_cookie", "fault.send_polled_once_then_dropped_if_pending"],
        env_nondeterminism: "pipe scheduling (stalls, short reads, capacities) between the two real multiplexers; conversation path incl. Byzantine moves",
    }
}
