//! C42 — immutable-DB reads return exactly the requested chain suffix (fault-free).
use crate::core::*;
use crate::engines::disk::*;
use pallas_hardano::storage::immutable::{get_tip, read_blocks, read_blocks_from_point, Point};

pub struct Reads;

fn collect(it: impl Iterator<Item = pallas_hardano::storage::immutable::FallibleBlock>, cap: usize) -> Result<Vec<Vec<u8>>, String> {
    let mut out = vec![];
    for b in it {
        match b {
            Ok(x) => out.push(x),
            Err(e) => return Err(e.to_string()),
        }
        if out.len() > cap {
            return Err("iterator yields more blocks than the database holds".into());
        }
    }
    Ok(out)
}

fn same(got: &[Vec<u8>], want: &[Blk]) -> bool {
    got.len() == want.len() && got.iter().zip(want).all(|(g, w)| *g == w.bytes)
}

impl Scenario for Reads {
    fn name(&self) -> &'static str {
        "reads-with-interleaved-writer"
    }
    fn run(&self, cx: &mut RunCx) -> Result<(), Violation> {
        let mut db = gen_db(&mut cx.ch, 6, 40);
        let scratch = Scratch::new();
        write_db(&scratch.dir, &db);
        let corp = corpus();
        let ops = cx.ch.range("ops", 1, 6);
        cx.tr.ev("db", &[db.len() as u64, db.iter().map(|c| c.blocks.len() as u64).sum()]);
        for _ in 0..ops {
            let imm = immutable_blocks(&db);
            let cap = imm.len() + 5;
            // immutable chunk files that hold no block at all (possible on small test networks)
            let q = if db.len() >= 2 && db[..db.len() - 1].iter().any(|c| c.blocks.is_empty()) { "+empty-immutable-chunk" } else { "" };
            let first = imm.first().cloned();
            match cx.ch.draw("op", 8) {
                0 => {
                    cx.tr.ev("read_blocks", &[]);
                    cx.st.inc("probe.read_blocks");
                    // a live iterator; writer steps are interleaved between its next() calls
                    let mut it = read_blocks(&scratch.dir).map_err(|e| Violation::new("read", "read_blocks-failed", e.to_string()))?;
                    let mut got = vec![];
                    loop {
                        if cx.ch.chance("writer.step", 1, 6) {
                            writer_step(cx, &mut db, &scratch, corp);
                        }
                        match it.next() {
                            Some(Ok(b)) => got.push(b),
                            Some(Err(e)) => return Err(Violation::new("read", "read_blocks-item-error", e.to_string())),
                            None => break,
                        }
                        if got.len() > cap {
                            break;
                        }
                    }
                    if !same(&got, &imm) {
                        cx.report(Violation::new("suffix", format!("{}{q}", "read_blocks"), format!("read_blocks yielded {} blocks, the immutable chunks hold {}", got.len(), imm.len())))?;
                    }
                }
                1 => {
                    cx.tr.ev("get_tip", &[]);
                    cx.st.inc("probe.get_tip");
                    let tip = get_tip(&scratch.dir).map_err(|e| Violation::new("read", "get_tip-failed", e.to_string()))?;
                    // the tip is the last block of the newest immutable chunk that holds one
                    let want = imm.last().map(|b| Point::Specific(b.slot, b.hash.clone()));
                    let newest_nonempty = db.len() >= 2 && !db[db.len() - 2].blocks.is_empty();
                    if tip != want && (newest_nonempty || imm.is_empty()) {
                        cx.report(Violation::new("tip", "get_tip", format!("get_tip = {:?}, last immutable block = {:?}", tip, want)))?;
                    } else if tip != want {
                        cx.st.inc("probe.tip_with_empty_newest_chunk_differs");
                    }
                }
                2 | 3 => {
                    // exact point of an existing immutable block
                    if imm.is_empty() {
                        continue;
                    }
                    let i = cx.ch.draw("exact.idx", imm.len() as u64) as usize;
                    cx.tr.ev("from_exact", &[i as u64]);
                    cx.st.inc("probe.exact_existing");
                    let p = Point::Specific(imm[i].slot, imm[i].hash.clone());
                    match read_blocks_from_point(&scratch.dir, p) {
                        Ok(it) => {
                            let got = collect(it, cap).map_err(|e| Violation::new("read", "from_point-item-error", e))?;
                            // duplicates of a slot (EBB + block) make "the" start ambiguous only for the fuzzy form
                            if !same(&got, &imm[i..]) {
                                cx.report(Violation::new("suffix", format!("{}{q}", "exact-existing"), format!("from block #{i} (slot {}): got {} blocks, want {}", imm[i].slot, got.len(), imm.len() - i)))?;
                            }
                        }
                        Err(e) => cx.report(Violation::new("suffix", format!("{}{q}", "exact-existing-rejected"), format!("existing block #{i} (slot {}) of {}: {e}", imm[i].slot, imm.len())))?,
                    }
                }
                4 | 5 => {
                    // fuzzy point: slot with empty hash, in / between / around blocks
                    let (lo, hi) = match (imm.first(), imm.last()) {
                        (Some(a), Some(b)) => (a.slot.saturating_sub(3), b.slot + 3),
                        _ => (0, 10),
                    };
                    // one in eight far beyond the tip
                    let slot = match cx.ch.draw("fuzzy.far", 8) {
                        7 => *cx.ch.pick("fuzzy.far.slot", &[u64::MAX, u64::MAX / 2, hi + 1_000_000, hi + 21_600]),
                        _ => lo + cx.ch.draw("fuzzy.slot", hi - lo + 1),
                    };
                    cx.tr.ev("from_fuzzy", &[slot]);
                    cx.st.inc("probe.fuzzy");
                    let want_from = imm.iter().position(|b| b.slot >= slot).unwrap_or(imm.len());
                    match read_blocks_from_point(&scratch.dir, Point::Specific(slot, vec![])) {
                        Ok(it) => {
                            let got = collect(it, cap).map_err(|e| Violation::new("read", "from_point-item-error", e))?;
                            if !same(&got, &imm[want_from..]) {
                                cx.report(Violation::new("suffix", format!("{}{q}", "fuzzy"), format!("fuzzy slot {slot}: got {} blocks, want {} (db slots {}..{})", got.len(), imm.len() - want_from, lo + 3, hi - 3)))?;
                            }
                        }
                        Err(e) => {
                            if want_from < imm.len() {
                                let which = if slot < imm[0].slot { "fuzzy-before-first-block-rejected" } else { "fuzzy-rejected" };
                                cx.report(Violation::new("suffix", format!("{}{q}", which), format!("fuzzy slot {slot} (first block at slot {}): {e}", imm[0].slot)))?;
                            } else {
                                // Nothing at or after that slot. The suffix from the first block at or after it is
                                // the empty one, and a database that holds blocks answers `Ok(empty)`; with no
                                // immutable block at all (or the known empty-chunk defect in play) an error is taken
                                // as equivalent.
                                cx.st.inc("probe.fuzzy_beyond_tip_error");
                                if !imm.is_empty() && q.is_empty() {
                                    cx.report(Violation::new("suffix", "fuzzy-beyond-tip-rejected", format!("fuzzy slot {slot} beyond the last immutable block (slot {}): {e} instead of the empty suffix", imm.last().unwrap().slot)))?;
                                }
                            }
                        }
                    }
                }
                6 => {
                    // absent exact point: wrong hash, slot in a gap, beyond the tip, before the first block
                    let kind = cx.ch.draw("absent.kind", 6);
                    let (slot, hash) = match (kind, imm.is_empty()) {
                        (4, false) => {
                            // real hash of a block, slot a little too small (an empty slot before it)
                            let b = &imm[cx.ch.draw("absent.idx", imm.len() as u64) as usize];
                            (b.slot.saturating_sub(1 + cx.ch.draw("absent.under", 3)), b.hash.clone())
                        }
                        (5, false) => {
                            // slot of one block with the hash of another
                            let a = &imm[cx.ch.draw("absent.idx", imm.len() as u64) as usize];
                            let b = &imm[cx.ch.draw("absent.idx2", imm.len() as u64) as usize];
                            (a.slot, b.hash.clone())
                        }
                        (_, true) => (5, vec![7u8; 32]),
                        (0, _) => {
                            let b = &imm[cx.ch.draw("absent.idx", imm.len() as u64) as usize];
                            (b.slot, vec![0xabu8; 32])
                        }
                        (1, _) => (imm.last().unwrap().slot + 1 + cx.ch.draw("absent.beyond", 50), imm.last().unwrap().hash.clone()),
                        (2, _) => (first.as_ref().unwrap().slot.saturating_sub(1 + cx.ch.draw("absent.before", 5)), first.as_ref().unwrap().hash.clone()),
                        _ => {
                            let b = &imm[cx.ch.draw("absent.idx", imm.len() as u64) as usize];
                            (b.slot + 1, b.hash.clone())
                        }
                    };
                    if imm.iter().any(|b| b.slot == slot && b.hash == hash) {
                        continue;
                    }
                    cx.tr.ev("from_absent", &[kind, slot]);
                    cx.st.inc("probe.absent_exact");
                    let names = ["wrong-hash", "beyond-tip", "before-first", "slot-in-gap", "real-hash-slot-too-small", "slot-of-one-block-hash-of-another"];
                    let kind = if slot > imm.last().map(|b| b.slot).unwrap_or(0) { 1 } else { kind };
                    match read_blocks_from_point(&scratch.dir, Point::Specific(slot, hash)) {
                        Ok(it) => {
                            let n = it.take(cap).count();
                            cx.report(Violation::new("absent_point_accepted", names[kind as usize].to_string(), format!("exact point (slot {slot}, absent) returned Ok with {n} blocks instead of failing ({})", names[kind as usize])))?;
                        }
                        Err(_) => {}
                    }
                }
                _ => {
                    cx.tr.ev("from_origin", &[]);
                    cx.st.inc("probe.origin");
                    let rooted = first.as_ref().map(|b| b.slot == 0 && b.number == 0).unwrap_or(false);
                    match read_blocks_from_point(&scratch.dir, Point::Origin) {
                        Ok(it) => {
                            let got = collect(it, cap).map_err(|e| Violation::new("read", "from_point-item-error", e))?;
                            if !same(&got, &imm) {
                                cx.report(Violation::new("suffix", format!("{}{q}", "origin"), format!("Origin: got {} blocks, want {}", got.len(), imm.len())))?;
                            }
                            if rooted {
                                cx.st.inc("probe.origin_rooted_ok");
                            }
                        }
                        Err(e) => {
                            if rooted {
                                cx.report(Violation::new("suffix", "origin-rejected", format!("genesis-rooted db: {e}")))?;
                            }
                        }
                    }
                }
            }
            if cx.ch.chance("writer.between", 1, 3) {
                writer_step(cx, &mut db, &scratch, corp);
            }
            cx.st.steps += 1;
        }
        cx.st.progress = true;
        Ok(())
    }
}

/// the node appends a block to the open chunk, or finalises it and starts the next one
fn writer_step(cx: &mut RunCx, db: &mut Vec<ChunkModel>, scratch: &Scratch, corp: &[Vec<Blk>]) {
    let Some(last) = db.last().cloned() else { return };
    // next real block after the last one we hold (same source), if any
    let last_blk = db.iter().rev().flat_map(|c| c.blocks.last()).next().cloned();
    let next = last_blk.and_then(|lb| {
        corp.iter().find_map(|src| src.iter().position(|b| b.hash == lb.hash && b.slot == lb.slot).and_then(|i| src.get(i + 1).cloned()))
    });
    if cx.ch.chance("writer.finalise", 1, 3) {
        cx.tr.ev("writer.finalise_and_open_next", &[]);
        cx.st.inc("fault.writer_finalises_chunk_mid_read");
        let n = db.len();
        db[n - 1].finalised = true;
        db[n - 1].write(&scratch.dir);
        let fresh = ChunkModel { number: last.number + 1, blocks: vec![], rel: vec![], backfill: 0, finalised: false };
        fresh.write(&scratch.dir);
        db.push(fresh);
    } else if let Some(b) = next {
        cx.tr.ev("writer.append", &[b.slot]);
        cx.st.inc("fault.writer_appends_mid_read");
        let n = db.len();
        let r = db[n - 1].rel.last().map(|x| x + 1 + cx.ch.draw("writer.gap", 2) as u32).unwrap_or(0);
        db[n - 1].blocks.push(b);
        db[n - 1].rel.push(r);
        // the node appends chunk, then secondary, then primary
        db[n - 1].write(&scratch.dir);
    }
}

pub fn def() -> CheckDef {
    CheckDef {
        prop: "C42",
        level: "exploration",
        batches: vec![batch(Reads, 6_000, 400_000, false)],
        rule: "per run a writer model of cardano-node's ImmutableDB re-packs 1..40 consecutive real blocks (from the three test chunks) into 1..6 chunks with seeded boundaries (empty chunks included), chunk numbers, relative slots with gaps and back-fill; 1..6 reader operations (read_blocks as a live iterator, get_tip, exact existing point, fuzzy slot in/between/around blocks, absent exact points of four kinds, Origin) run against it while the writer appends to / finalises the open chunk between reader steps; oracle = single-copy log of all chunks but the highest-numbered at listing time; non-trivial = completed run with a non-neutral choice; distinct = distinct traces",
        real: vec!["pallas_hardano::storage::immutable::{read_blocks, read_blocks_from_point, get_tip, chunk_binary_search, iterate_till_point}", "chunk::Reader, primary::Reader, secondary::Reader", "MultiEraBlock::decode"],
        stub: vec!["the writer (model of cardano-node's ImmutableDB append path, DESIGN Appendix B)", "disk = tmpfs scratch directory"],
        assumptions: vec![
            "block metadata (slot, hash, number) of the model comes from MultiEraBlock::decode at corpus load time",
            "get_tip is judged only when the newest immutable chunk holds a block or the database is empty",
            "a fuzzy point beyond the tip may yield an empty suffix or an error",
        ],
        required: vec!["probe.read_blocks", "probe.get_tip", "probe.exact_existing", "probe.fuzzy", "probe.absent_exact", "probe.origin", "probe.origin_rooted_ok", "fault.writer_appends_mid_read", "fault.writer_finalises_chunk_mid_read"],
        env_nondeterminism: "database shape; writer steps (append / finalise / open next chunk) interleaved between reader steps",
    }
}
