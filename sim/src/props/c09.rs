//! C09 — ledger and network decoders never panic on untrusted bytes.
//! The mutation operators the property names are what a faulty or hostile transport / disk does;
//! here they are injected at the transport seam (in flight) and at rest (before framing).

use crate::core::*;
use crate::engines::net1::msgs::*;
use crate::engines::net1::*;
use crate::engines::p2p::adapter as a2;
use crate::spec::cbor;
use pallas_network::multiplexer::{ChannelBuffer, Plexer};
use pallas_network2::behavior::responder::ResponderBehavior;
use pallas_network2::behavior::{AnyMessage, InitiatorBehavior, InitiatorCommand};
use pallas_network2::{Behavior, InterfaceEvent, Message as _};
use pallas_traverse::{MultiEraBlock, MultiEraHeader, MultiEraOutput, MultiEraTx};
use std::collections::HashMap;
use std::sync::OnceLock;
use tokio::io::AsyncWriteExt;

/// One structure-aware or blind mutation; returns the fault-kind name that fired.
pub fn mutate(ch: &mut Choices, b: &mut Vec<u8>) -> &'static str {
    if b.is_empty() {
        let n = 1 + ch.draw("mut.random.len", 40) as usize;
        *b = ch.bytes("mut.random", n);
        return "fault.random_bytes";
    }
    let n = b.len() as u64;
    match ch.draw("mut.kind", 14) {
        12 | 13 => {
            // a small unsigned integer rewritten to another value: constructor tags, era numbers, variant
            // indices (`[tag, ...]`) are what decoders dispatch or index on; early heads preferred
            let mut heads = vec![];
            if let Ok(items) = cbor::parse_seq(b) {
                for it in &items {
                    it.heads(&mut heads);
                }
            }
            let cands: Vec<usize> = heads.into_iter().filter(|h| b[*h] >> 5 == 0).collect();
            if cands.is_empty() {
                b[0] = ch.draw("mut.tag.first", 256) as u8;
                return "fault.discriminant_rewrite";
            }
            let k = if ch.chance("mut.tag.early", 2, 3) { ch.draw("mut.tag.idx.early", cands.len().min(6) as u64) } else { ch.draw("mut.tag.idx", cands.len() as u64) } as usize;
            let h = cands[k];
            let ai = b[h] & 0x1f;
            let arglen = match ai { 24 => 1, 25 => 2, 26 => 4, 27 => 8, _ => 0 };
            let new: Vec<u8> = match ch.draw("mut.tag.val", 4) {
                0 | 1 => vec![ch.draw("mut.tag.small", 24) as u8],
                2 => vec![0x18, ch.draw("mut.tag.byte", 256) as u8],
                _ => vec![0x19, 0xff, 0xff],
            };
            let end = (h + 1 + arglen).min(b.len());
            b.splice(h..end, new);
            "fault.discriminant_rewrite"
        }
        10 | 11 => {
            // a container / string head rewritten to declare a huge length (what a hostile peer sends to
            // make a decoder pre-allocate): 4- or 8-byte length argument inserted after the head
            let mut heads = vec![];
            if let Ok(items) = cbor::parse_seq(b) {
                for it in &items {
                    it.heads(&mut heads);
                }
            }
            let cands: Vec<usize> = heads.into_iter().filter(|h| matches!(b[*h] >> 5, 2 | 3 | 4 | 5) && (b[*h] & 0x1f) < 24).collect();
            if cands.is_empty() {
                b[0] = 0x9b;
                return "fault.huge_declared_length";
            }
            // prefer heads close to the start of a message: they belong to the message's own structure
            let k = if ch.chance("mut.huge.early", 2, 3) { ch.draw("mut.huge.idx.early", cands.len().min(4) as u64) } else { ch.draw("mut.huge.idx", cands.len() as u64) } as usize;
            let h = cands[k];
            let mt = b[h] & 0xe0;
            let arg: Vec<u8> = match ch.draw("mut.huge.val", 5) {
                0 => vec![0xff; 8],
                1 => (1u64 << 62).to_be_bytes().to_vec(),
                2 => (1u64 << 40).to_be_bytes().to_vec(),
                3 => (u64::MAX / 32).to_be_bytes().to_vec(),
                _ => 0xffff_ffffu32.to_be_bytes().to_vec(),
            };
            b[h] = mt | if arg.len() == 8 { 27 } else { 26 };
            b.splice(h + 1..h + 1, arg);
            "fault.huge_declared_length"
        }
        0 | 1 => {
            for _ in 0..1 + ch.draw("mut.flips", 3) {
                let at = ch.draw("mut.flip.at", n) as usize;
                b[at] ^= 1 << ch.draw("mut.flip.bit", 8);
            }
            "fault.bit_flip"
        }
        2 => {
            let at = ch.draw("mut.over.at", n) as usize;
            b[at] = *ch.pick("mut.over.val", &[0u8, 0xff, 0x1f, 0x5f, 0x7f, 0x9f, 0xbf, 0xf6, 0x80, 0xa0, 0x1b, 0x5b, 0x9b, 0xbb, 0xd8, 0xc2]);
            "fault.byte_overwrite"
        }
        3 => {
            b.truncate(ch.draw("mut.trunc.at", n) as usize);
            "fault.truncation"
        }
        4 => {
            // splice: duplicate / move / delete a range
            let a = ch.draw("mut.splice.a", n) as usize;
            let len = 1 + ch.draw("mut.splice.len", (n - a as u64).min(64)) as usize;
            let piece: Vec<u8> = b[a..(a + len).min(b.len())].to_vec();
            match ch.draw("mut.splice.op", 3) {
                0 => {
                    let at = ch.draw("mut.splice.to", n) as usize;
                    b.splice(at..at, piece);
                }
                1 => {
                    b.drain(a..(a + len).min(b.len()));
                }
                _ => {
                    b.drain(a..(a + len).min(b.len()));
                    let at = ch.draw("mut.splice.to", b.len() as u64 + 1) as usize;
                    b.splice(at..at, piece);
                }
            }
            "fault.splice"
        }
        5 | 6 => {
            // CBOR head / length-field corruption at a real item head
            let mut heads = vec![];
            if let Ok(items) = cbor::parse_seq(b) {
                for it in &items {
                    it.heads(&mut heads);
                }
            }
            if heads.is_empty() {
                heads.push(0);
            }
            let h = heads[ch.draw("mut.head.idx", heads.len() as u64) as usize];
            let ib = b[h];
            match ch.draw("mut.head.op", 5) {
                0 => b[h] = (ib & 0xe0) | ch.draw("mut.head.ai", 32) as u8, // same major type, other length class
                1 => b[h] = (ib & 0x1f) | ((ch.draw("mut.head.mt", 8) as u8) << 5), // other major type
                2 => b[h] = (ib & 0xe0) | 27, // 8-byte length follows
                3 => b[h] = (ib & 0xe0) | 31, // indefinite
                _ => {
                    // corrupt the length argument bytes
                    let at = (h + 1).min(b.len() - 1);
                    b[at] = *ch.pick("mut.head.arg", &[0u8, 1, 0x7f, 0xff]);
                }
            }
            "fault.cbor_length_corruption"
        }
        7 => {
            let len = 1 + ch.draw("mut.garbage.len", 60) as usize;
            let at = ch.draw("mut.garbage.at", n) as usize;
            let g = ch.bytes("mut.garbage", len);
            let end = (at + len).min(b.len());
            b.splice(at..end, g);
            "fault.garbage_range"
        }
        8 => {
            let n = 1 + ch.draw("mut.random.len", 200) as usize;
            *b = ch.bytes("mut.random", n);
            "fault.random_bytes"
        }
        _ => {
            // nesting: a run of container heads (what a dup-splice of `81 81..` amounts to)
            let depth = *ch.pick("mut.nest.depth", &[8usize, 64, 600, 4000]);
            let head = *ch.pick("mut.nest.head", &[0x81u8, 0x9f, 0xd8, 0xa1, 0xc2]);
            let at = ch.draw("mut.nest.at", n) as usize;
            let mut run = vec![];
            for _ in 0..depth {
                run.push(head);
                if head == 0xd8 {
                    run.push(0x79);
                }
                if head == 0xa1 {
                    run.push(0x00);
                }
            }
            b.splice(at..at, run);
            "fault.deep_nesting"
        }
    }
}

fn segment(proto: u16, payload: &[u8]) -> Vec<u8> {
    let mut v = vec![0, 0, 0, 1];
    v.extend(proto.to_be_bytes());
    v.extend((payload.len() as u16).to_be_bytes());
    v.extend(payload);
    v
}

// ------------------------------------------------------------------ artefacts

pub struct Artefacts {
    pub blocks: Vec<(String, Vec<u8>)>,
    pub txs: Vec<(String, Vec<u8>)>,
    pub headers: Vec<(String, Vec<u8>)>,
}

pub fn artefacts() -> &'static Artefacts {
    static A: OnceLock<Artefacts> = OnceLock::new();
    A.get_or_init(|| {
        let mut a = Artefacts { blocks: vec![], txs: vec![], headers: vec![] };
        let mut names: Vec<_> = std::fs::read_dir("/repo/test_data").map(|d| d.flatten().map(|e| e.path()).collect()).unwrap_or_default();
        names.sort();
        for p in names {
            let ext = p.extension().map(|e| e.to_string_lossy().to_string()).unwrap_or_default();
            if !matches!(ext.as_str(), "block" | "tx" | "header") {
                continue;
            }
            let Ok(txt) = std::fs::read_to_string(&p) else { continue };
            let Ok(bytes) = hex::decode(txt.trim()) else { continue };
            let name = p.file_name().unwrap().to_string_lossy().to_string();
            match ext.as_str() {
                "block" => a.blocks.push((name, bytes)),
                "tx" => a.txs.push((name, bytes)),
                _ => a.headers.push((name, bytes)),
            }
        }
        // a few blocks of the immutable-db chunks as well (Byron era incl.)
        for (i, src) in crate::engines::disk::corpus().iter().enumerate() {
            for (j, b) in src.iter().enumerate().step_by(97).take(6) {
                a.blocks.push((format!("chunk{i}-{j}"), b.bytes.clone()));
            }
        }
        a
    })
}

/// decode entry points on (possibly corrupted) bytes; returns Err(entry point) when one panics
fn guarded<T>(st: &mut Stats, entry: &'static str, f: impl FnOnce() -> Option<T>) -> Result<Option<T>, Violation> {
    st.inc(&format!("probe.{entry}.reached"));
    match std::panic::catch_unwind(std::panic::AssertUnwindSafe(f)) {
        Ok(Some(x)) => {
            st.inc(&format!("probe.{entry}.ok"));
            Ok(Some(x))
        }
        Ok(None) => {
            st.inc(&format!("probe.{entry}.err"));
            Ok(None)
        }
        Err(_) => {
            let (f, m) = take_panic().unwrap_or_default();
            let mut v = panic_violation(&f, &m);
            v.message = format!("{entry}: {}", v.message);
            Err(v)
        }
    }
}

/// accessors on decoded values: outside the statement ("decoding ... never panics"), so a panic
/// here is counted as a probe, not judged
fn unjudged(st: &mut Stats, f: impl FnOnce()) {
    if std::panic::catch_unwind(std::panic::AssertUnwindSafe(f)).is_err() {
        let _ = take_panic();
        st.inc("probe.accessor_panics_unjudged");
    }
}

pub fn ledger_pipeline_block(st: &mut Stats, bytes: &[u8]) -> Result<(), Violation> {
    let blk = guarded(st, "MultiEraBlock::decode", || MultiEraBlock::decode(bytes).ok())?;
    let Some(blk) = blk else { return Ok(()) };
    let mut addr_bytes: Vec<Vec<u8>> = vec![];
    unjudged(st, || {
        let _ = (blk.hash(), blk.slot(), blk.number(), blk.header().hash(), blk.tx_count(), blk.size());
        for tx in blk.txs() {
            let _ = (tx.hash(), tx.fee(), tx.ttl(), tx.is_valid());
            for i in tx.inputs() {
                let _ = (i.hash(), i.index());
            }
            for o in tx.outputs() {
                if let Ok(a) = o.address() {
                    addr_bytes.push(a.to_vec());
                }
                let _ = (o.value().coin(), o.datum().is_some(), o.script_ref().is_some());
            }
            let _ = (tx.mints().len(), tx.certs().len(), tx.collateral().len(), tx.reference_inputs().len());
            let _ = tx.metadata();
        }
    });
    for a in addr_bytes.iter().take(4) {
        guarded(st, "Address::from_bytes", || pallas_addresses::Address::from_bytes(a).ok())?;
    }
    Ok(())
}

pub fn ledger_pipeline_tx(st: &mut Stats, bytes: &[u8]) -> Result<(), Violation> {
    let tx = guarded(st, "MultiEraTx::decode", || MultiEraTx::decode(bytes).ok())?;
    for era in [pallas_traverse::Era::Byron, pallas_traverse::Era::Alonzo, pallas_traverse::Era::Babbage, pallas_traverse::Era::Conway] {
        guarded(st, "MultiEraTx::decode_for_era", || MultiEraTx::decode_for_era(era, bytes).ok())?;
    }
    if let Some(tx) = tx {
        let mut outs: Vec<(pallas_traverse::Era, Vec<u8>)> = vec![];
        unjudged(st, || {
            let _ = (tx.hash(), tx.inputs().len());
            for o in tx.outputs() {
                outs.push((o.era(), o.encode()));
                let _ = o.address();
            }
        });
        for (era, enc) in outs.iter().take(3) {
            guarded(st, "MultiEraOutput::decode", || MultiEraOutput::decode(*era, enc).ok())?;
        }
    }
    Ok(())
}

pub fn ledger_pipeline_header(st: &mut Stats, tag: u8, subtag: Option<u8>, bytes: &[u8]) -> Result<(), Violation> {
    let h = guarded(st, "MultiEraHeader::decode", || MultiEraHeader::decode(tag, subtag, bytes).ok())?;
    if let Some(h) = h {
        unjudged(st, || {
            let _ = (h.hash(), h.slot(), h.number(), h.previous_hash(), h.issuer_vkey().map(|x| x.len()));
            let _ = h.leader_vrf_output();
        });
    }
    Ok(())
}

// ------------------------------------------------------------------ scenario 1: stack-1 wire faults

pub struct Wire1Faults;
impl Scenario for Wire1Faults {
    fn name(&self) -> &'static str {
        "stack1-corrupting-transport"
    }
    fn may_abort(&self) -> bool {
        true
    }
    fn run(&self, cx: &mut RunCx) -> Result<(), Violation> {
        let p = cx.ch.draw("proto", N1 as u64) as usize;
        let n = cx.ch.range("msgs", 1, 12);
        // a conformant peer's stream: legal message encodings, cut into segments
        let mut stream: Vec<u8> = vec![];
        let mut other_proto_segments = 0;
        for _ in 0..n {
            let k = cx.ch.draw("kind", SPECS1[p].msgs.len() as u64) as u8;
            let m = gen1(p, k, &mut cx.ch);
            let Ok(Ok(enc)) = std::panic::catch_unwind(std::panic::AssertUnwindSafe(|| m.encode())) else {
                let _ = take_panic();
                continue;
            };
            for c in enc.chunks(1 + cx.ch.draw("seg.size", 4000) as usize) {
                stream.extend(segment(WIRE_ID[p], c));
            }
            if cx.ch.chance("other.proto", 1, 6) {
                // bytes of another protocol land in this protocol's decoder when the id is corrupted; also send some openly
                let q = cx.ch.draw("other.proto.idx", N1 as u64) as usize;
                let k2 = cx.ch.draw("other.kind", SPECS1[q].msgs.len() as u64) as u8;
                if let Ok(Ok(e2)) = std::panic::catch_unwind(std::panic::AssertUnwindSafe(|| gen1(q, k2, &mut cx.ch).encode())) {
                    stream.extend(segment(WIRE_ID[p], &e2[..e2.len().min(60_000)]));
                    other_proto_segments += 1;
                }
                let _ = take_panic();
            }
        }
        let faults = cx.ch.range("faults", 0, 3);
        for _ in 0..faults {
            let kind = mutate(&mut cx.ch, &mut stream);
            cx.st.inc(kind);
            cx.tr.ev("fault", &[hash_str(kind)]);
        }
        if other_proto_segments > 0 {
            cx.st.inc("fault.foreign_protocol_payload");
        }
        let pcfg = PipeCfg { short: (cx.ch.draw("cfg.short", 4), 4), stall: (cx.ch.draw("cfg.stall", 2), 8), ..Default::default() };
        cx.tr.ev("stream", &[p as u64, stream.len() as u64, faults]);
        run_sim(cx, |sh| async move {
            let (mut wa, rb) = pipe("a2b", &sh, &pcfg);
            let (wb, _ra) = pipe("b2a", &sh, &pcfg);
            let mut pb = Plexer::new(bearer1(rb, wb));
            let mut buf = ChannelBuffer::new(pb.subscribe_server(WIRE_ID[p]));
            let rpb = pb.spawn();
            let w = tokio::spawn(async move {
                let _ = wa.write_all(&stream).await;
                drop(wa); // EOF
            });
            let mut got = 0u64;
            let mut errs = 0u64;
            loop {
                match tokio::time::timeout(std::time::Duration::from_secs(20), recv1(p, &mut buf)).await {
                    Ok(Ok(_)) => got += 1,
                    Ok(Err(pallas_network::multiplexer::Error::Decoding(_))) => {
                        errs += 1;
                        // a decode error leaves the buffer as it is; an agent gives up on the connection here
                        break;
                    }
                    Ok(Err(_)) => break,
                    Err(_) => break, // nothing more will arrive
                }
                if got > 10_000 {
                    break;
                }
            }
            let _ = w.await;
            rpb.abort().await;
            let mut s = sh.lock().unwrap();
            s.st.add(&format!("probe.recv1.{}.ok", NAMES1[p]), got);
            s.st.add(&format!("probe.recv1.{}.err", NAMES1[p]), errs);
            s.st.inc(&format!("probe.recv1.{}.reached", NAMES1[p]));
            s.st.progress = true;
            Ok(())
        })
    }
}

// ------------------------------------------------------------------ scenario 2: stack-2 wire faults, decoded garbage fed to the behaviours

pub struct Wire2Faults;
impl Scenario for Wire2Faults {
    fn name(&self) -> &'static str {
        "stack2-corrupting-transport"
    }
    fn may_abort(&self) -> bool {
        true
    }
    fn run(&self, cx: &mut RunCx) -> Result<(), Violation> {
        let n = cx.ch.range("msgs", 1, 12);
        let mut stream: Vec<u8> = vec![];
        for _ in 0..n {
            let p = cx.ch.draw("proto", a2::NPROTO as u64) as usize;
            let k = cx.ch.draw("kind", a2::SPECS[p].msgs.len() as u64) as u8;
            let m = a2::gen_msg(p, k, &mut cx.ch);
            let enc = m.payload();
            // sometimes the segment carries another channel id: payload lands in a foreign decoder
            let id = if cx.ch.chance("foreign.channel", 1, 5) { *cx.ch.pick("foreign.id", &a2::SPECS_CHANNEL) } else { m.channel() };
            for c in enc.chunks(1 + cx.ch.draw("seg.size", 4000) as usize) {
                stream.extend(segment(id | 0x8000, c));
            }
        }
        let faults = cx.ch.range("faults", 0, 3);
        for _ in 0..faults {
            let kind = mutate(&mut cx.ch, &mut stream);
            cx.st.inc(kind);
            cx.tr.ev("fault", &[hash_str(kind)]);
        }
        let pcfg = PipeCfg { short: (cx.ch.draw("cfg.short", 4), 4), ..Default::default() };
        let feed_initiator = cx.ch.chance("feed.initiator", 1, 2);
        cx.tr.ev("stream2", &[stream.len() as u64, faults]);
        let mut decoded: Vec<AnyMessage> = vec![];
        let dref = &mut decoded;
        run_sim(cx, |sh| async move {
            let (mut wa, rb) = pipe("a2b", &sh, &pcfg);
            let (wb, _ra) = pipe("b2a", &sh, &pcfg);
            let (mut rd, _w) = bearer2(rb, wb).into_split();
            let w = tokio::spawn(async move {
                let _ = wa.write_all(&stream).await;
                drop(wa);
            });
            let mut partial: HashMap<u16, Vec<u8>> = HashMap::new();
            let mut rounds = 0;
            loop {
                match tokio::time::timeout(std::time::Duration::from_secs(20), rd.read_full_msgs::<AnyMessage>(&mut partial)).await {
                    Ok(Ok(ms)) => dref.extend(ms),
                    _ => break,
                }
                rounds += 1;
                if rounds > 20_000 {
                    break;
                }
            }
            let _ = w.await;
            let mut s = sh.lock().unwrap();
            s.st.add("probe.read_full_msgs.rounds", rounds);
            s.st.progress = true;
            Ok(())
        })?;
        cx.st.add("probe.AnyMessage::from_payload.ok", decoded.len() as u64);
        cx.st.inc("probe.AnyMessage::from_payload.reached");
        // whatever decoded is delivered to a behaviour, as TcpInterface would
        let id = crate::engines::p2p::sim::pid(0);
        if feed_initiator {
            let mut beh = InitiatorBehavior::default();
            beh.execute(InitiatorCommand::IncludePeer(id.clone()));
            beh.execute(InitiatorCommand::Housekeeping);
            beh.handle_io(InterfaceEvent::Connected(id.clone()));
            for m in decoded {
                beh.handle_io(InterfaceEvent::Recv(id.clone(), vec![m]));
                if cx.ch.chance("hk", 1, 4) {
                    beh.execute(InitiatorCommand::Housekeeping);
                }
            }
        } else {
            let mut beh = ResponderBehavior::default();
            beh.handle_io(InterfaceEvent::Connected(id.clone()));
            for m in decoded {
                beh.handle_io(InterfaceEvent::Recv(id.clone(), vec![m]));
            }
            beh.handle_io(InterfaceEvent::Idle);
        }
        Ok(())
    }
}

// ------------------------------------------------------------------ scenario 3: ledger artefacts in flight and at rest

pub struct Ledger;
impl Scenario for Ledger {
    fn name(&self) -> &'static str {
        "ledger-artefacts-served-corrupted"
    }
    fn may_abort(&self) -> bool {
        true
    }
    fn run(&self, cx: &mut RunCx) -> Result<(), Violation> {
        use pallas_network::miniprotocols as mp;
        let arts = artefacts();
        let what = cx.ch.draw("artefact.kind", 4); // 0,1 block; 2 tx; 3 header
        let (name, mut bytes, kind) = match what {
            0 | 1 => {
                let (n, b) = &arts.blocks[cx.ch.draw("artefact.block", arts.blocks.len() as u64) as usize];
                (n.clone(), b.clone(), 0)
            }
            2 => {
                let (n, b) = &arts.txs[cx.ch.draw("artefact.tx", arts.txs.len() as u64) as usize];
                (n.clone(), b.clone(), 1)
            }
            _ => {
                let (n, b) = &arts.headers[cx.ch.draw("artefact.header", arts.headers.len() as u64) as usize];
                (n.clone(), b.clone(), 2)
            }
        };
        let at_rest = cx.ch.chance("corrupt.at_rest", 2, 3);
        let mut fired: Vec<&'static str> = vec![];
        if at_rest {
            for _ in 0..cx.ch.range("faults", 1, 3) {
                fired.push(mutate(&mut cx.ch, &mut bytes));
            }
        }
        cx.tr.ev("artefact", &[hash_str(&name), kind, bytes.len() as u64, at_rest as u64]);
        // frame it the way the serving node would
        let framed: Vec<u8> = match kind {
            0 => M1::Bf(mp::blockfetch::Message::Block { body: bytes.clone() }).encode().unwrap(),
            1 => M1::Ts(mp::txsubmission::Message::ReplyTxs(vec![mp::txsubmission::EraTxBody(6, bytes.clone())])).encode().unwrap(),
            _ => M1::CsH(mp::chainsync::Message::RollForward(
                mp::chainsync::HeaderContent { variant: 1 + cx.ch.draw("hdr.variant", 6) as u8, byron_prefix: None, cbor: bytes.clone() },
                mp::chainsync::Tip(mp::Point::Origin, 0),
            ))
            .encode()
            .unwrap(),
        };
        let (p, wire) = match kind {
            0 => (BF, 3u16),
            1 => (TS, 4),
            _ => (CSH, 2),
        };
        let mut stream: Vec<u8> = vec![];
        for c in framed.chunks(1 + cx.ch.draw("seg.size", 65535) as usize) {
            stream.extend(segment(wire, c));
        }
        if !at_rest {
            // corruption in flight: the segment stream itself is damaged
            for _ in 0..cx.ch.range("faults", 1, 3) {
                fired.push(mutate(&mut cx.ch, &mut stream));
            }
        }
        for f in &fired {
            cx.st.inc(f);
        }
        let pcfg = PipeCfg { short: (cx.ch.draw("cfg.short", 3), 4), ..Default::default() };
        let mut arrived: Vec<M1> = vec![];
        let aref = &mut arrived;
        run_sim(cx, |sh| async move {
            let (mut wa, rb) = pipe("a2b", &sh, &pcfg);
            let (wb, _ra) = pipe("b2a", &sh, &pcfg);
            let mut pb = Plexer::new(bearer1(rb, wb));
            let mut buf = ChannelBuffer::new(pb.subscribe_server(wire));
            let rpb = pb.spawn();
            let w = tokio::spawn(async move {
                let _ = wa.write_all(&stream).await;
                drop(wa);
            });
            for _ in 0..4 {
                match tokio::time::timeout(std::time::Duration::from_secs(20), recv1(p, &mut buf)).await {
                    Ok(Ok(m)) => aref.push(m),
                    _ => break,
                }
            }
            let _ = w.await;
            rpb.abort().await;
            sh.lock().unwrap().st.progress = true;
            Ok(())
        })?;
        // the consumer node runs the ledger decoders on whatever arrived
        for m in arrived {
            match m {
                M1::Bf(mp::blockfetch::Message::Block { body }) => ledger_pipeline_block(&mut cx.st, &body)?,
                M1::Ts(mp::txsubmission::Message::ReplyTxs(txs)) => {
                    for t in txs {
                        ledger_pipeline_tx(&mut cx.st, &t.1)?;
                    }
                }
                M1::CsH(mp::chainsync::Message::RollForward(h, _)) => {
                    let sub = h.byron_prefix.map(|x| x.0);
                    ledger_pipeline_header(&mut cx.st, h.variant, sub, &h.cbor)?;
                    ledger_pipeline_header(&mut cx.st, 0, Some(cx.ch.draw("hdr.subtag", 2) as u8), &h.cbor)?;
                }
                _ => {}
            }
        }
        // at-rest artefacts are also what a disk hands back: decode directly, incl. as the other kinds
        if at_rest {
            match kind {
                0 => ledger_pipeline_block(&mut cx.st, &bytes)?,
                1 => ledger_pipeline_tx(&mut cx.st, &bytes)?,
                _ => ledger_pipeline_header(&mut cx.st, 1 + cx.ch.draw("hdr.variant2", 6) as u8, None, &bytes)?,
            }
            let n = bytes.len().min(1 + cx.ch.draw("addr.len", 120) as usize);
            let off = cx.ch.draw("addr.off", (bytes.len() - n) as u64 + 1) as usize;
            guarded(&mut cx.st, "Address::from_bytes", || pallas_addresses::Address::from_bytes(&bytes[off..off + n]).ok())?;
        }
        // the address field of an output as a torn / garbled transport leaves it: every header type, pointer
        // varuints with seeded runs of continuation bytes (up to past the u64 range), cut with or without terminator
        let a = gen_address_field(&mut cx.ch);
        cx.st.inc("fault.address_field_garbled");
        guarded(&mut cx.st, "Address::from_bytes", || pallas_addresses::Address::from_bytes(&a).ok())?;
        Ok(())
    }
}

fn gen_address_field(ch: &mut Choices) -> Vec<u8> {
    let ty = ch.draw("af.type", 16) as u8;
    let mut out = vec![(ty << 4) | ch.draw("af.net", 16) as u8];
    let fill = |ch: &mut Choices, out: &mut Vec<u8>, n: usize| {
        let b = ch.draw("af.fill", 256) as u8;
        out.extend(std::iter::repeat(b).take(n));
    };
    fill(ch, &mut out, 28);
    match ty {
        0..=3 => fill(ch, &mut out, 28),
        4 | 5 => {
            for _ in 0..3 {
                let run = match ch.draw("af.varuint.run", 6) {
                    0 => 0,
                    1 => 1,
                    2 => 8,
                    3 => 9,
                    4 => 10,
                    _ => 10 + ch.draw("af.varuint.more", 8) as usize,
                };
                let hi = if ch.chance("af.varuint.ff", 1, 2) { 0xFF } else { 0x80 | ch.draw("af.varuint.bits", 128) as u8 };
                out.extend(std::iter::repeat(hi).take(run));
                if ch.chance("af.varuint.cut", 1, 4) {
                    return out; // torn inside the continuation run
                }
                out.push(ch.draw("af.varuint.last", 128) as u8);
            }
        }
        _ => {}
    }
    match ch.draw("af.tail", 4) {
        0 => {
            let keep = ch.draw("af.truncate", out.len() as u64 + 1) as usize;
            out.truncate(keep);
        }
        1 => {
            let n = 1 + ch.draw("af.extra", 4) as usize;
            fill(ch, &mut out, n);
        }
        _ => {}
    }
    out
}


// ------------------------------------------------------------------ scenario 4: local-state query payloads

/// small structured CBOR: the shapes tag-dispatching decoders (`[tag, fields..]`) look at
fn gen_structured(ch: &mut Choices, out: &mut Vec<u8>, depth: u32) {
    match ch.draw("sc.kind", if depth > 3 { 5 } else { 9 }) {
        0 => out.push(ch.draw("sc.uint", 24) as u8),
        1 => {
            out.push(0x18);
            out.push(ch.draw("sc.u8", 256) as u8);
        }
        2 => {
            let n = *ch.pick("sc.bytes.len", &[0usize, 4, 28, 32]);
            if n < 24 { out.push(0x40 | n as u8) } else { out.extend([0x58, n as u8]) }
            out.extend(ch.bytes("sc.bytes", n));
        }
        3 => out.push(*ch.pick("sc.simple", &[0xf4u8, 0xf5, 0xf6, 0x20, 0x60])),
        4 => {
            out.extend([0x1a]);
            out.extend((ch.draw("sc.u32", 1 << 32) as u32).to_be_bytes());
        }
        5 | 6 => {
            // [tag, fields..]
            let n = ch.draw("sc.arr.len", 6);
            out.push(0x80 | n as u8);
            for i in 0..n {
                if i == 0 && ch.chance("sc.tagged", 3, 4) {
                    out.push(ch.draw("sc.tag", 24) as u8);
                } else {
                    gen_structured(ch, out, depth + 1);
                }
            }
        }
        7 => {
            let n = ch.draw("sc.map.len", 4);
            out.push(0xa0 | n as u8);
            for _ in 0..n {
                gen_structured(ch, out, depth + 2);
                gen_structured(ch, out, depth + 1);
            }
        }
        _ => {
            out.extend([0xd8, *ch.pick("sc.tagnum", &[24u8, 30, 121, 102])]);
            gen_structured(ch, out, depth + 1);
        }
    }
}

macro_rules! decode_as {
    ($st:expr, $bytes:expr, $which:expr, $($idx:expr => $t:ty),* $(,)?) => {
        match $which {
            $($idx => { guarded($st, concat!("queries_v16::", stringify!($t)), || pallas_codec::minicbor::decode::<$t>($bytes).ok().map(|_| ()))?; })*
            _ => {}
        }
    };
}

pub struct LocalStatePayloads;
impl Scenario for LocalStatePayloads {
    fn name(&self) -> &'static str {
        "localstate-query-payloads"
    }
    fn may_abort(&self) -> bool {
        true
    }
    fn run(&self, cx: &mut RunCx) -> Result<(), Violation> {
        use pallas_network::miniprotocols as mp;
        use pallas_network::miniprotocols::localstate::queries_v16 as q;
        // the node's answer: structured bytes, sometimes damaged further in flight
        let mut payload = vec![];
        gen_structured(&mut cx.ch, &mut payload, 0);
        if cbor::parse_one(&payload).is_err() {
            payload = vec![0x81, 0x00];
        }
        let as_query = cx.ch.chance("as.query", 1, 4);
        let msg = if as_query { mp::localstate::Message::Query(pallas_codec::utils::AnyCbor::from_raw_bytes(payload.clone())) } else { mp::localstate::Message::Result(pallas_codec::utils::AnyCbor::from_raw_bytes(payload.clone())) };
        let framed = M1::Lsq(msg).encode().unwrap();
        let mut stream: Vec<u8> = vec![];
        for c in framed.chunks(1 + cx.ch.draw("seg.size", 300) as usize) {
            stream.extend(segment(7, c));
        }
        if cx.ch.chance("inflight.fault", 1, 4) {
            let k = mutate(&mut cx.ch, &mut stream);
            cx.st.inc(k);
        }
        cx.st.inc("fault.structured_random_payload");
        let pcfg = PipeCfg { short: (cx.ch.draw("cfg.short", 3), 4), ..Default::default() };
        let mut arrived: Vec<Vec<u8>> = vec![];
        let aref = &mut arrived;
        run_sim(cx, |sh| async move {
            let (mut wa, rb) = pipe("a2b", &sh, &pcfg);
            let (wb, _ra) = pipe("b2a", &sh, &pcfg);
            let mut pb = Plexer::new(bearer1(rb, wb));
            let mut buf = ChannelBuffer::new(pb.subscribe_server(7));
            let rpb = pb.spawn();
            let w = tokio::spawn(async move {
                let _ = wa.write_all(&stream).await;
                drop(wa);
            });
            if let Ok(Ok(M1::Lsq(m))) = tokio::time::timeout(std::time::Duration::from_secs(20), recv1(LSQ, &mut buf)).await {
                match m {
                    mp::localstate::Message::Result(x) | mp::localstate::Message::Query(x) => aref.push(x.raw_bytes().to_vec()),
                    _ => {}
                }
            }
            let _ = w.await;
            rpb.abort().await;
            sh.lock().unwrap().st.progress = true;
            Ok(())
        })?;
        for bytes in arrived {
            let which = cx.ch.draw("result.type", 30);
            let st = &mut cx.st;
            decode_as!(st, &bytes, which,
                0 => q::DRep, 1 => q::CommitteeAuthorization, 2 => q::FuturePParams, 3 => q::GovAction, 4 => q::HotCredAuthStatus,
                5 => q::NextEpochChange, 6 => q::CostModels, 7 => q::Value, 8 => q::RationalNumber, 9 => q::TransactionOutput,
                10 => q::BlockQuery, 11 => q::HardForkQuery, 12 => q::LedgerQuery, 13 => q::Request, 14 => q::Credential,
                15 => q::GovActionId, 16 => q::Anchor, 17 => q::Constitution, 18 => q::Vote, 19 => q::ProposalProcedure,
                20 => q::DRepState, 21 => q::AccountState, 22 => q::SystemStart, 23 => q::ProtocolParam, 24 => q::UTxOByAddress,
                25 => q::StakeSnapshots, 26 => q::GenesisConfig, 27 => q::PoolParams, 28 => q::GovState, 29 => q::CommitteeMembersState,
            );
        }
        Ok(())
    }
}

pub fn def() -> CheckDef {
    let mut required: Vec<&'static str> = vec![
        "fault.bit_flip", "fault.byte_overwrite", "fault.truncation", "fault.splice", "fault.cbor_length_corruption", "fault.garbage_range", "fault.random_bytes", "fault.deep_nesting", "fault.huge_declared_length", "fault.discriminant_rewrite", "fault.foreign_protocol_payload",
        "probe.MultiEraBlock::decode.ok", "probe.MultiEraBlock::decode.err", "probe.MultiEraTx::decode.ok", "probe.MultiEraTx::decode.err", "probe.MultiEraHeader::decode.ok", "probe.MultiEraHeader::decode.err",
        "probe.MultiEraOutput::decode.reached", "fault.structured_random_payload", "probe.queries_v16::q::DRep.reached", "probe.queries_v16::q::BlockQuery.reached", "probe.Address::from_bytes.ok", "fault.address_field_garbled", "probe.Address::from_bytes.err", "probe.AnyMessage::from_payload.ok",
    ];
    for n in NAMES1 {
        required.push(Box::leak(format!("probe.recv1.{n}.ok").into_boxed_str()));
        required.push(Box::leak(format!("probe.recv1.{n}.err").into_boxed_str()));
    }
    CheckDef {
        prop: "C09",
        level: "exploration",
        batches: vec![batch(Wire1Faults, 12_000, 700_000, true), batch(Wire2Faults, 10_000, 600_000, true), batch(Ledger, 6_000, 300_000, true), batch(LocalStatePayloads, 10_000, 500_000, true)],
        rule: "a conformant simulated peer streams generated legal messages of every stack-1 / stack-2 protocol (and every block, transaction and header artefact of test_data plus sampled chunk blocks, framed as block-fetch / tx-submission / chain-sync replies) through a corrupting transport: 0..3 faults per stream out of k-bit flips, byte overwrite with CBOR-significant values, range splice (dup/move/delete), truncate-then-EOF, CBOR head/length corruption at real item heads, heads rewritten to declare a huge (2^32 .. 2^64-1) length, garbage ranges, pure random payload, container-nesting runs, payload of another protocol, applied in flight (segment stream incl. headers) or at rest (artefact before framing); real demuxer + typed decoders consume until EOF, decoded stack-2 garbage is fed on into both behaviours, arrived artefacts go through MultiEraBlock/Tx/Header/Output::decode and Address::from_bytes; one generated address field per run (every header type, pointer varuints with seeded continuation runs up to past the u64 range, torn with or without terminator, truncated or over-long) goes through Address::from_bytes; oracle: no panic in a decode entry point, no process abort (supervised child), runs end by EOF; per-entry-point reached/ok/err counters; non-trivial = completed run with a non-neutral choice; distinct = distinct traces",
        real: vec!["MultiEraBlock::decode, MultiEraTx::decode/decode_for_era, MultiEraHeader::decode, MultiEraOutput::decode, Address::from_bytes", "every stack-1 message decoder via Demuxer + ChannelBuffer::recv_full_msg", "stack-2 read_full_msgs + AnyMessage::from_payload", "InitiatorBehavior / ResponderBehavior on decoded garbage"],
        stub: vec!["serving peer and its corrupting transport (simulated)", "socket (SimPipe)"],
        assumptions: vec![
            "only decode entry points are judged (the statement is about decoding); panics in accessors of successfully decoded values are counted as probe.accessor_panics_unjudged and not reported",
            "Address::from_hex / from_bech32 (string forms that never cross a pallas transport) are outside this check",
            "run threads use the default 8 MiB stack",
        ],
        required,
        env_nondeterminism: "where and how the transport / disk corrupts the stream; segmentation and read granularity",
    }
}
