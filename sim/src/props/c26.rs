//! C26 — rollback buffer behaves like a chain-suffix model.
use crate::core::*;
use pallas_network::miniprotocols::chainsync::{RollbackBuffer, RollbackEffect};
use pallas_network::miniprotocols::Point;

pub struct Hist;

/// The point alphabet: Origin, a block in slot 0 (same `slot_or_default` as Origin), and two
/// competing blocks (different hashes) for each further slot, as after a slot battle.
fn pt(i: u64) -> Point {
    if i == 0 { Point::Origin } else { Point::Specific((i / 2) * 10, vec![i as u8; 4]) }
}

/// compare every observation of the real buffer with the list model
pub fn compare(cx: &mut RunCx, buf: &RollbackBuffer, model: &[Point], op: &str) -> Result<(), Violation> {
    let real: Vec<Point> = buf.peek().cloned().collect();
    if real != model {
        return cx.report(Violation::new("model", format!("{op}:contents"), format!("after {op}: buffer holds {:?}, model {:?}", real, model)));
    }
    if buf.size() != model.len() {
        return cx.report(Violation::new("model", format!("{op}:size"), format!("size() = {}, model {}", buf.size(), model.len())));
    }
    if buf.oldest() != model.first() || buf.latest() != model.last() {
        return cx.report(Violation::new("model", format!("{op}:ends"), format!("oldest/latest = {:?}/{:?}, model {:?}/{:?}", buf.oldest(), buf.latest(), model.first(), model.last())));
    }
    Ok(())
}

/// one rollback on both. The list model finds a point the way a list does - its first occurrence
/// (`Vec::iter().position`, which is also what `RollbackBuffer::position` documents) - and keeps
/// everything up to it.
pub fn rollback(cx: &mut RunCx, buf: &mut RollbackBuffer, model: &mut Vec<Point>, p: &Point) -> Result<(), Violation> {
    let first = model.iter().position(|x| x == p);
    let dup = model.iter().filter(|x| *x == p).count() > 1;
    let eff = buf.roll_back(p);
    match (first, eff) {
        (None, RollbackEffect::OutOfScope) => {
            cx.st.inc("probe.rollback_out_of_scope");
            model.clear();
        }
        (None, RollbackEffect::Handled) => {
            return cx.report(Violation::new("model", "roll_back:handled-unknown-point", format!("roll_back({:?}) reported Handled but the point is not buffered ({:?})", p, model)));
        }
        (Some(_), RollbackEffect::OutOfScope) => {
            return cx.report(Violation::new("model", "roll_back:out-of-scope-known-point", format!("roll_back({:?}) reported OutOfScope but the point is buffered ({:?})", p, model)));
        }
        (Some(i), RollbackEffect::Handled) => {
            cx.st.inc("probe.rollback_handled");
            if dup {
                cx.st.inc("probe.rollback_to_duplicated_point");
            }
            model.truncate(i + 1);
        }
    }
    compare(cx, buf, model, "roll_back")
}

pub fn pop(cx: &mut RunCx, buf: &mut RollbackBuffer, model: &mut Vec<Point>, depth: usize) -> Result<(), Violation> {
    let got = buf.pop_with_depth(depth);
    let n = model.len().saturating_sub(depth);
    let want: Vec<Point> = model.drain(0..n).collect();
    if !want.is_empty() {
        cx.st.inc("probe.pop_nonempty");
    }
    if got != want {
        return cx.report(Violation::new("model", "pop_with_depth:result", format!("pop_with_depth({depth}) returned {:?}, model {:?}", got, want)));
    }
    compare(cx, buf, model, "pop_with_depth")
}

impl Scenario for Hist {
    fn name(&self) -> &'static str {
        "buffer-op-history"
    }
    fn run(&self, cx: &mut RunCx) -> Result<(), Violation> {
        let alphabet = cx.ch.range("alphabet", 2, 9);
        let steps = cx.ch.range("steps", 1, 200);
        let mut buf = RollbackBuffer::new();
        let mut model: Vec<Point> = vec![];
        for _ in 0..steps {
            cx.st.steps += 1;
            match cx.ch.draw("op", 8) {
                0 | 1 | 2 | 3 => {
                    let p = pt(cx.ch.draw("point", alphabet));
                    cx.tr.ev("roll_forward", &[p.slot_or_default()]);
                    buf.roll_forward(p.clone());
                    model.push(p);
                    compare(cx, &buf, &model, "roll_forward")?;
                }
                4 | 5 => {
                    let p = pt(cx.ch.draw("point", alphabet));
                    cx.tr.ev("roll_back", &[p.slot_or_default()]);
                    rollback(cx, &mut buf, &mut model, &p)?;
                }
                6 => {
                    let d = cx.ch.draw("depth", 8) as usize;
                    cx.tr.ev("pop_with_depth", &[d as u64]);
                    pop(cx, &mut buf, &mut model, d)?;
                }
                _ => {
                    let p = pt(cx.ch.draw("point", alphabet));
                    let want = model.iter().position(|x| *x == p);
                    let got = buf.position(&p);
                    let ok = got == want;
                    if !ok {
                        cx.report(Violation::new("model", "position", format!("position({:?}) = {:?}, model {:?}", p, got, want)))?;
                    }
                }
            }
            cx.st.state(mix(model.len() as u64, model.last().map(|p| p.slot_or_default()).unwrap_or(999)));
        }
        cx.st.progress = true;
        Ok(())
    }
}

/// (a) two-node chain-sync: a forking producer (simulated server) feeds a real N2NClient; the
/// consumer applies every RollForward/RollBackward to a real RollbackBuffer and pops with a seeded depth.
pub struct TwoNode;
impl Scenario for TwoNode {
    fn name(&self) -> &'static str {
        "chainsync-forking-producer"
    }
    fn run(&self, cx: &mut RunCx) -> Result<(), Violation> {
        use crate::engines::net1::msgs::*;
        use crate::engines::net1::*;
        use pallas_network::miniprotocols::chainsync as cs;
        use pallas_network::multiplexer::{ChannelBuffer, Plexer};
        let pcfg = PipeCfg { stall: (cx.ch.draw("cfg.stall", 3), 8), short: (cx.ch.draw("cfg.short", 3), 4), delay: (cx.ch.draw("cfg.delay", 2), 16), ..Default::default() };
        let steps = cx.ch.range("steps", 1, 60);
        let alphabet = cx.ch.range("alphabet", 3, 9);
        let depth = cx.ch.draw("depth", 6) as usize;
        // the consumer's side of the oracle lives outside the runtime: collect the chain events first
        let mut events: Vec<(bool, Point)> = vec![]; // (is_rollback, point)
        let evref = &mut events;
        run_sim(cx, |sh| async move {
            let (wa, rb) = pipe("a2b", &sh, &pcfg);
            let (wb, ra) = pipe("b2a", &sh, &pcfg);
            let mut pa = Plexer::new(bearer1(ra, wa));
            let mut pb = Plexer::new(bearer1(rb, wb));
            let (cch, sch) = (pa.subscribe_client(2), pb.subscribe_server(2));
            let (ra_, rb_) = (pa.spawn(), pb.spawn());
            let mut client = cs::N2NClient::new(cch);
            let mut producer = ChannelBuffer::new(sch);
            let sh2 = sh.clone();
            // the producer: a block tree over a small alphabet; switches forks, rolls back to points the
            // consumer never saw, re-announces points (Byzantine variant)
            let prod = tokio::spawn(chaos_auto(
                async move {
                    let mut chain: Vec<u64> = vec![];
                    loop {
                        let Ok(M1::CsH(req)) = recv1(CSH, &mut producer).await else { break };
                        let tip = cs::Tip(Point::Origin, 0);
                        match req {
                            cs::Message::RequestNext => {
                                if chance(&sh2, "prod.await", 1, 5) {
                                    let _ = send1(&mut producer, &M1::CsH(cs::Message::AwaitReply)).await;
                                }
                                let rollback = !chain.is_empty() && chance(&sh2, "prod.rollback", 1, 3);
                                let m = if rollback {
                                    let deep = chance(&sh2, "prod.deep", 1, 4);
                                    let p = if deep { 1 + draw(&sh2, "prod.unknown", alphabet) } else { chain[draw(&sh2, "prod.back", chain.len() as u64) as usize] };
                                    if let Some(i) = chain.iter().position(|x| *x == p) { chain.truncate(i + 1) } else { chain.clear() }
                                    cs::Message::RollBackward(pt(p), tip)
                                } else {
                                    let p = 1 + draw(&sh2, "prod.point", alphabet);
                                    chain.push(p);
                                    cs::Message::RollForward(cs::HeaderContent { variant: 1, byron_prefix: None, cbor: vec![p as u8] }, tip)
                                };
                                if send1(&mut producer, &M1::CsH(m)).await.is_err() { break }
                            }
                            cs::Message::FindIntersect(_) => {
                                let _ = send1(&mut producer, &M1::CsH(cs::Message::IntersectFound(Point::Origin, tip))).await;
                            }
                            _ => break,
                        }
                    }
                },
                &sh,
                (1, 8),
            ));
            let mut out = Ok(());
            if chance(&sh, "cons.intersect", 1, 2) {
                if let Err(e) = client.find_intersect(vec![Point::Origin]).await { out = Err(Violation::new("wire", "find_intersect-failed", e.to_string())); }
            }
            for _ in 0..steps {
                if out.is_err() { break }
                match client.request_or_await_next().await {
                    Ok(cs::NextResponse::RollForward(h, _)) => { ev(&sh, "fwd", &[h.cbor[0] as u64]); evref.push((false, pt(h.cbor[0] as u64))) }
                    Ok(cs::NextResponse::RollBackward(p, _)) => { ev(&sh, "back", &[p.slot_or_default()]); evref.push((true, p)) }
                    Ok(cs::NextResponse::Await) => { ev(&sh, "await", &[]); inc(&sh, "probe.await_reply"); }
                    Err(e) => out = Err(Violation::new("wire", "request_next-failed", e.to_string())),
                }
            }
            let _ = client.send_done().await;
            prod.abort();
            ra_.abort().await;
            rb_.abort().await;
            sh.lock().unwrap().st.progress = true;
            out
        })?;
        let mut buf = RollbackBuffer::new();
        let mut model: Vec<Point> = vec![];
        for (is_back, p) in events {
            cx.st.steps += 1;
            if is_back {
                rollback(cx, &mut buf, &mut model, &p)?;
            } else {
                buf.roll_forward(p.clone());
                model.push(p);
                compare(cx, &buf, &model, "roll_forward")?;
            }
            if cx.ch.chance("cons.pop", 1, 3) {
                pop(cx, &mut buf, &mut model, depth)?;
            }
        }
        Ok(())
    }
}

pub fn def() -> CheckDef {
    CheckDef {
        prop: "C26",
        level: "exploration",
        batches: vec![batch(Hist, 60_000, 3_000_000, false), batch(TwoNode, 5_000, 300_000, true)],
        rule: "seeded histories of 1..200 roll_forward / roll_back / pop_with_depth / position operations over a point alphabet of 2..9 points (duplicates and misses forced); a Vec<Point> reference model is compared after every operation (contents in order, size, oldest, latest, pop results, Handled/OutOfScope); roll-back to a duplicated point may keep any occurrence; non-trivial = completed history with a non-neutral choice; distinct = distinct op traces",
        real: vec!["pallas_network::miniprotocols::chainsync::RollbackBuffer", "chainsync::N2NClient + Plexer pair (two-node batch)"],
        stub: vec!["chain producer (simulated forking chain-sync server) in the two-node batch", "socket (SimPipe)"],
        assumptions: vec!["single actor in the direct-history batch; the chain producer of the two-node batch is a simulated forking peer"],
        required: vec!["probe.rollback_handled", "probe.rollback_out_of_scope", "probe.rollback_to_duplicated_point", "probe.pop_nonempty", "probe.await_reply"],
        env_nondeterminism: "none in the direct-history batch (operation order only)",
    }
}
