//! C28 — the P2P initiator never violates a protocol it speaks.
use crate::core::*;
use crate::engines::p2p::sim::{Cfg, Sim};

pub struct Wire {
    pub name: &'static str,
    pub prompt: bool,
    pub pool: u64,
    pub steps: u64,
    pub faults: bool,
    pub lockstep: bool,
}

impl Scenario for Wire {
    fn name(&self) -> &'static str {
        self.name
    }
    fn run(&self, cx: &mut RunCx) -> Result<(), Violation> {
        let cfg = Cfg {
            max_peers_pool: self.pool,
            max_steps: self.steps,
            byzantine: false,
            conn_faults: self.faults,
            prompt_sent: self.prompt,
            small_limits: false,
            check_c27: false,
            check_c28: true,
            leios: true,
            lockstep: self.lockstep,
        };
        Sim::new(cx, cfg).run()
    }
}

pub fn def() -> CheckDef {
    CheckDef {
        prop: "C28",
        level: "exploration",
        batches: vec![
            batch(Wire { name: "wire-lockstep", prompt: true, pool: 3, steps: 250, faults: false, lockstep: true }, 20_000, 1_500_000, false),
            batch(Wire { name: "wire-lockstep-faults", prompt: true, pool: 4, steps: 300, faults: true, lockstep: true }, 10_000, 600_000, true),
            batch(Wire { name: "wire-delayed-drain", prompt: true, pool: 3, steps: 250, faults: false, lockstep: false }, 15_000, 1_000_000, false),
            batch(Wire { name: "wire-delayed-sent", prompt: false, pool: 3, steps: 250, faults: false, lockstep: false }, 15_000, 1_000_000, false),
            batch(Wire { name: "wire-delayed-sent-faults", prompt: false, pool: 4, steps: 400, faults: true, lockstep: false }, 10_000, 600_000, true),
            batch(crate::engines::p2p::modeb::RealManager { name: "real-manager-tcpinterface", faults: false, cuts: false }, 2_000, 120_000, false),
            batch(crate::engines::p2p::modeb::RealManager { name: "real-manager-tcpinterface-faults", faults: true, cuts: false }, 2_000, 120_000, true),
        ],
        rule: "seeded schedules interleaving commands (incl. repeated housekeeping), output draining, delivery of Connected/Sent/Recv/Error/Disconnected in any order a real connection allows, and replies of conformant responders (incl. AwaitReply, NoBlocks, Refuse, QueryReply); every Send dispatched to a connected peer is judged by the per-peer per-protocol spec automaton; a further pair of batches runs the real Manager + TcpInterface over seeded pipes against simulated nodes that judge every message they read off the wire, the application issuing a command only after the manager went quiet; non-trivial = completed schedule with a non-neutral choice; distinct = distinct event traces",
        real: vec!["InitiatorBehavior and all sub-behaviours", "InitiatorState::apply_msg", "protocol::*::State::apply", "OutboundQueue", "real-manager batches: Manager::poll_next/execute, TcpInterface + TcpConnectionPool (send/recv/connect futures, writer mutex), network2 Bearer read_full_msgs/write_message, AnyMessage codec"],
        stub: vec!["abstract batches: Interface (simulated, discrete-event) and Manager (replaced by the seeded loop, which can take either select! branch)", "real-manager batches: sockets (SimPipe via hooks H2/H3); futures::select! branch order is neutralised by gate wrappers that delegate to the real interface/behaviour (which side may report readiness first is a seeded choice)", "remote peers (spec::proto conformant responders)"],
        assumptions: vec![
            "verdicts use the responder's view of each protocol (messages dispatched to it, messages it emitted)",
            "a Send to a peer the interface holds no connection for is dropped by the interface and not judged",
            "cross-protocol ordering (traffic before the handshake completed) is not judged",
        ],
        required: vec!["probe.sends_dispatched", "probe.peer_replies", "probe.peer_initialized", "probe.chainsync_events", "probe.housekeeping", "probe.wire_messages_judged", "probe.node_replies", "probe.connections_opened", "probe.block_bodies"],
        env_nondeterminism: "relative order of commands, housekeeping, behaviour-output draining and interface confirmations; connection faults; HashMap iteration order (which peer gets a queued request)",
    }
}
