//! C39 — sequence validation updates certificate state atomically.
//! Single-actor history simulation: sequences of Shelley-MA fixtures (with and without
//! certificates), aborting elements at seeded positions, seeded initial certificate states.

use crate::core::*;
use pallas_codec::utils::Bytes;
use pallas_crypto::hash::Hash;
use pallas_primitives::alonzo::{Nonce, NonceVariant, RationalNumber, StakeCredential, TransactionOutput, Tx, Value};
use pallas_traverse::{Era, MultiEraInput, MultiEraOutput, MultiEraTx};
use pallas_validate::phase1::{validate_tx, validate_txs};
use pallas_validate::utils::{AccountState, CertState, Environment, MultiEraProtocolParameters, PoolParam, ShelleyProtParams, UTxOs};
use std::borrow::Cow;
use std::str::FromStr;
use std::sync::OnceLock;

struct Fixture {
    name: &'static str,
    era: Era,
    cbor: Vec<u8>,
    /// (address hex, lovelace) of the spent output, as in the repository's own tests
    utxo: (&'static str, u64),
}

fn fixtures() -> &'static Vec<Fixture> {
    static F: OnceLock<Vec<Fixture>> = OnceLock::new();
    F.get_or_init(|| {
        let load = |n: &str| hex::decode(std::fs::read_to_string(format!("/repo/test_data/{n}")).expect("fixture").trim()).expect("hex");
        vec![
            Fixture { name: "shelley1", era: Era::Shelley, cbor: load("shelley1.tx"), utxo: ("0129bb156d52d014bb444a14138cbee36044c6faed37d0c2d49d2358315c465cbf8c5536970e8a29bb7adcda0d663b20007d481813694c64ef", 2332267427205) },
            Fixture { name: "mary2-pool-registration", era: Era::Mary, cbor: load("mary2.tx"), utxo: ("018e8f7a7073b8a95a4c1f1cf412b1042fca4945b89eb11754b3481b29fb2b631db76384f64dd94b47f97fc8c2a206764c17a1de7da2f70e83", 1_507_817_955) },
            Fixture { name: "mary3-stake-delegation", era: Era::Mary, cbor: load("mary3.tx"), utxo: ("014faace6b1de3b825da7c7f4308917822049cdedb5868f7623f892d4e39cf0461807b986a6477205e376dac280d7f150eb497025f67c49757", 627_760_000) },
            Fixture { name: "allegra1-mir", era: Era::Mary, cbor: load("allegra1.tx"), utxo: ("61b651c2062463499961b9cd594da399a5ec910fceb5c63f9eb55a224a", 96_400_000) },
        ]
    })
}

fn env(slot: u64, max_tx: u32) -> Environment {
    Environment {
        prot_params: MultiEraProtocolParameters::Shelley(ShelleyProtParams {
            system_start: chrono::DateTime::parse_from_rfc3339("2017-09-23T21:44:51Z").unwrap(),
            epoch_length: 432000,
            slot_length: 1,
            minfee_b: 155381,
            minfee_a: 44,
            max_block_body_size: 65536,
            max_transaction_size: max_tx,
            max_block_header_size: 1100,
            key_deposit: 2_000_000,
            pool_deposit: 500_000_000,
            maximum_epoch: 18,
            desired_number_of_stake_pools: 500,
            pool_pledge_influence: RationalNumber { numerator: 3, denominator: 10 },
            expansion_rate: RationalNumber { numerator: 3, denominator: 1000 },
            treasury_growth_rate: RationalNumber { numerator: 2, denominator: 10 },
            decentralization_constant: RationalNumber { numerator: 0, denominator: 1 },
            extra_entropy: Nonce { variant: NonceVariant::NeutralNonce, hash: None },
            protocol_version: (4, 0),
            min_utxo_value: 1_000_000,
            min_pool_cost: 340_000_000,
        }),
        prot_magic: 764824073,
        block_slot: slot,
        network_id: 1,
        acnt: Some(AccountState { treasury: 374_930_989_230_000, reserves: 12_618_536_190_580_000 }),
    }
}

fn mary2_pool() -> (Hash<28>, PoolParam) {
    use pallas_primitives::alonzo::{PoolMetadata, Relay};
    (
        Hash::from_str("59EBE72AE96462018FBE04633100F90B3066688D85F00F3BD254707F").unwrap(),
        PoolParam {
            vrf_keyhash: Hash::from_str("1EFB798F239B9B02DEB4636A3AB1962AF43512595FCB82276E11971E684E49B7").unwrap(),
            pledge: 1000000000,
            cost: 340000000,
            margin: RationalNumber { numerator: 3, denominator: 100 },
            reward_account: hex::decode("E1FB2B631DB76384F64DD94B47F97FC8C2A206764C17A1DE7DA2F70E83").unwrap().into(),
            pool_owners: Vec::from([Hash::from_str("FB2B631DB76384F64DD94B47F97FC8C2A206764C17A1DE7DA2F70E83").unwrap()]),
            relays: [Relay::SingleHostAddr(Some(3001), Some(hex::decode("C22614BB").unwrap().into()), None)].to_vec(),
            pool_metadata: Some(PoolMetadata { url: "https://cardapool.com/a.json".to_string(), hash: "01F708549816C9A075FF96E9682C11A5F5C7F4E147862A663BDEECE0716AB76E".to_string().try_into().unwrap() }),
        },
    )
}

/// order-independent rendering of a certificate state (the maps are HashMaps)
pub fn digest(cs: &CertState) -> String {
    fn sorted<T: std::fmt::Debug>(it: impl Iterator<Item = T>) -> Vec<String> {
        let mut v: Vec<String> = it.map(|x| format!("{:?}", x)).collect();
        v.sort();
        v
    }
    format!(
        "pools={:?} fut={:?} retiring={:?} rewards={:?} deleg={:?} ptrs={:?} futgen={:?} gen={:?} ir0={:?} ir1={:?}",
        sorted(cs.pstate.pool_params.iter()),
        sorted(cs.pstate.fut_pool_params.iter()),
        sorted(cs.pstate.retiring.iter()),
        sorted(cs.dstate.rewards.iter()),
        sorted(cs.dstate.delegations.iter()),
        sorted(cs.dstate.ptrs.iter().map(|(k, v)| ((k.slot, k.tx_ix, k.cert_ix), v))),
        sorted(cs.dstate.fut_gen_delegs.iter()),
        sorted(cs.dstate.gen_delegs.iter()),
        sorted(cs.dstate.inst_rewards.0.iter()),
        sorted(cs.dstate.inst_rewards.1.iter()),
    )
}

pub struct Seqs;

impl Scenario for Seqs {
    fn name(&self) -> &'static str {
        "fixture-sequences-with-aborts"
    }
    fn run(&self, cx: &mut RunCx) -> Result<(), Violation> {
        let fx = fixtures();
        let txs: Vec<Tx> = fx.iter().map(|f| pallas_codec::minicbor::decode::<Tx>(&f.cbor).expect("fixture decodes")).collect();
        let n = cx.ch.draw("seq.len", 9) as usize;
        let seq: Vec<usize> = (0..n).map(|_| cx.ch.draw("seq.tx", fx.len() as u64) as usize).collect();
        // aborting elements: fixtures whose spent output is withheld from the UTxO set of this call
        let withheld: Vec<bool> = (0..fx.len()).map(|_| cx.ch.chance("withhold.utxo", 1, 4)).collect();
        let mut utxos: UTxOs = UTxOs::new();
        for (i, (f, tx)) in fx.iter().zip(txs.iter()).enumerate() {
            if withheld[i] {
                continue;
            }
            for tx_in in tx.transaction_body.inputs.iter() {
                let out = TransactionOutput { address: Bytes::from(hex::decode(f.utxo.0).unwrap()), amount: Value::Coin(f.utxo.1), datum_hash: None };
                utxos.insert(MultiEraInput::AlonzoCompatible(Box::new(Cow::Owned(tx_in.clone()))), MultiEraOutput::AlonzoCompatible(Box::new(Cow::Owned(out)), Era::Alonzo));
            }
        }
        let slot = *cx.ch.pick("env.slot", &[5281340u64, 19282133, 29035358, 29_100_000, 19_400_000]);
        let max_tx = *cx.ch.pick("env.max_tx", &[16384u32, 4096, 300]);
        let e = env(slot, max_tx);
        // seeded initial certificate state
        let mut cs = CertState::default();
        if cx.ch.chance("init.owner_reward_account", 3, 4) {
            cs.dstate.rewards.insert(StakeCredential::AddrKeyhash(Hash::from_str("FB2B631DB76384F64DD94B47F97FC8C2A206764C17A1DE7DA2F70E83").unwrap()), 0);
        }
        if cx.ch.chance("init.pool_registered", 1, 2) {
            let (k, p) = mary2_pool();
            cs.pstate.pool_params.insert(k, p);
        }
        if cx.ch.chance("init.other_reward", 1, 3) {
            cs.dstate.rewards.insert(StakeCredential::AddrKeyhash(Hash::from([7u8; 28])), cx.ch.draw("init.reward", 1000));
        }
        let metxs: Vec<MultiEraTx> = seq.iter().map(|i| MultiEraTx::from_alonzo_compatible(&txs[*i], fx[*i].era)).collect();
        cx.tr.ev("seq", &seq.iter().map(|x| *x as u64).collect::<Vec<_>>());
        cx.tr.note(|| format!("sequence {:?} withheld {:?} slot {slot} max_tx {max_tx}", seq.iter().map(|i| fx[*i].name).collect::<Vec<_>>(), withheld));
        // ---- reference: fold of the single-transaction function over a clone, in order
        let before = digest(&cs);
        let mut model = cs.clone();
        let mut model_err: Option<(usize, String)> = None;
        let mut changed_before_abort = false;
        for (i, m) in metxs.iter().enumerate() {
            let snapshot = digest(&model);
            match validate_tx(m, (i as u64).try_into().unwrap(), &e, &utxos, &mut model) {
                Ok(()) => {
                    if digest(&model) != snapshot {
                        cx.st.inc("probe.tx_changed_cert_state");
                    }
                }
                Err(err) => {
                    changed_before_abort = snapshot != before;
                    model_err = Some((i, format!("{err:?}")));
                    break;
                }
            }
        }
        // ---- the call under test
        let res = validate_txs(&metxs, &e, &utxos, &mut cs);
        let after = digest(&cs);
        cx.st.steps += 1;
        match (res, model_err) {
            (Ok(()), None) => {
                cx.st.inc("probe.sequence_ok");
                if after != digest(&model) {
                    return cx.report(Violation::new("atomicity", "ok-state-differs-from-fold", format!("validate_txs succeeded but the state is not the in-order fold\n got  {after}\n want {}", digest(&model))));
                }
                if after != before {
                    cx.st.inc("probe.sequence_ok_state_changed");
                }
            }
            (Err(_), Some((i, _))) => {
                cx.st.inc("probe.sequence_aborted");
                if changed_before_abort {
                    cx.st.inc("fault.abort_after_state_changing_tx");
                }
                if after != before {
                    return cx.report(Violation::new(
                        "atomicity",
                        "failed-call-changed-state",
                        format!("validate_txs failed at element {i} but the caller's certificate state changed\n before {before}\n after  {after}"),
                    ));
                }
            }
            (Ok(()), Some((i, e))) => {
                return cx.report(Violation::new("atomicity", "ok-but-fold-fails", format!("validate_txs returned Ok although element {i} fails on its own: {e}")));
            }
            (Err(e), None) => {
                return cx.report(Violation::new("atomicity", "fails-but-fold-ok", format!("validate_txs failed ({e:?}) although every element validates in order")));
            }
        }
        cx.st.progress = true;
        Ok(())
    }
}

pub fn def() -> CheckDef {
    CheckDef {
        prop: "C39",
        level: "exploration",
        batches: vec![batch(Seqs, 40_000, 2_000_000, true)],
        rule: "seeded sequences (0..8) of four Shelley-MA fixtures of test_data (plain payment, pool registration, stake delegation, MIR) under seeded environments (block slot, max tx size) and seeded initial certificate states; aborting elements = fixtures whose spent output is withheld from the UTxO set, expired TTLs and size limits of the chosen environment, delegation before registration; oracle: on Ok the caller's state equals the in-order fold of validate_tx over a clone, on Err it equals the state before the call (order-independent field-wise digest of pstate/dstate); non-trivial = run with a non-neutral choice; distinct = distinct (sequence, environment, initial state) traces",
        real: vec!["pallas_validate::phase1::{validate_txs, validate_tx}", "shelley_ma::validate_shelley_ma_tx incl. certificate rules"],
        stub: vec![],
        assumptions: vec!["validate_tx is trusted as the per-transaction reference (the property is about the sequence function)", "single actor; no environment nondeterminism - the injected event is an aborting element at a seeded position"],
        required: vec!["probe.sequence_ok_state_changed", "probe.sequence_aborted", "fault.abort_after_state_changing_tx", "probe.tx_changed_cert_state"],
        env_nondeterminism: "none (single-actor history simulation)",
    }
}
