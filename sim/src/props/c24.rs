//! C24 — P2P stack protocol state machines implement the specification.
//! Message histories of simulated two-party sessions (conformant and Byzantine
//! senders) drive the real `State::apply`; from every state reached, every message
//! variant is applied once and judged against the spec automaton.

use crate::core::*;
use crate::engines::p2p::adapter::*;

pub struct Sessions;

impl Scenario for Sessions {
    fn name(&self) -> &'static str {
        "apply-sessions"
    }
    fn run(&self, cx: &mut RunCx) -> Result<(), Violation> {
        let sessions = cx.ch.range("sessions", 1, 6);
        for _ in 0..sessions {
            let proto = cx.ch.draw("proto", NPROTO as u64) as usize;
            let spec = SPECS[proto];
            let mut real = AnyState::initial(proto);
            let mut ss = spec.init;
            let mut hist: Vec<pallas_network2::behavior::AnyMessage> = vec![];
            let len = if cx.ch.chance("long", 1, 8) { cx.ch.range("len.long", 9, 40) } else { cx.ch.range("len", 1, 8) };
            cx.tr.ev("session", &[proto as u64, len]);
            'session: for _ in 0..len {
                if real.class() != ss {
                    // can only follow an already reported (known) divergence
                    break 'session;
                }
                // single-step sweep: every message variant from this state with fresh field values, then the
                // last messages of this session once more (same cookie / same body / same peers as the state
                // may be holding: acceptance must not depend on a payload matching the state's payload)
                let fresh: Vec<_> = (0..spec.msgs.len() as u8).map(|k| gen_msg(proto, k, &mut cx.ch)).collect();
                let echoes: Vec<_> = hist.iter().rev().take(3).cloned().collect();
                if !echoes.is_empty() {
                    cx.st.inc("probe.echoed_messages_offered");
                }
                for m in fresh.into_iter().chain(echoes.into_iter()) {
                    let k = kind(&m).1;
                    let want = spec.next(ss, k);
                    let got = real.apply(&m).expect("same protocol");
                    cx.st.state(((proto as u64) << 16) | ((ss as u64) << 8) | k as u64);
                    cx.st.steps += 1;
                    let tag = format!("{}:{}+{}", spec.name, spec.sname(ss), spec.mname(k));
                    match (want, got) {
                        (None, Err(_)) => cx.st.inc("probe.rejected_as_specified"),
                        (Some(n), Ok(new)) => {
                            cx.st.inc("probe.accepted_as_specified");
                            if new.class() != n {
                                cx.report(Violation::new(
                                    "apply",
                                    format!("{tag}:wrong-successor:{}", spec.sname(new.class())),
                                    format!("{tag}: spec successor {}, apply gave {:?}", spec.sname(n), new),
                                ))?;
                            } else if let Err(e) = new.carries(&real, &m) {
                                cx.report(Violation::new("apply", format!("{tag}:data"), format!("{tag}: {e}; msg {:?} -> {:?}", m, new)))?;
                            }
                        }
                        (Some(n), Err(e)) => {
                            cx.report(Violation::new(
                                "apply",
                                format!("{tag}:rejected-but-permitted"),
                                format!("{tag}: the specification permits it (-> {}), apply returned Err({e})", spec.sname(n)),
                            ))?;
                        }
                        (None, Ok(new)) => {
                            cx.report(Violation::new(
                                "apply",
                                format!("{tag}:accepted-but-forbidden"),
                                format!("{tag}: forbidden by the specification, apply gave {:?}", new),
                            ))?;
                        }
                    }
                }
                // advance the session
                let legal = spec.legal(ss);
                let byz = cx.ch.chance("byzantine", 1, 6) || legal.is_empty();
                let k = if byz { cx.ch.draw("byz.msg", spec.msgs.len() as u64) as u8 } else { legal[cx.ch.draw("legal.msg", legal.len() as u64) as usize].0 };
                let m = gen_msg(proto, k, &mut cx.ch);
                cx.tr.ev("msg", &[proto as u64, ss as u64, k as u64]);
                cx.tr.note(|| format!("{} in {}: {:?}", spec.name, spec.sname(ss), m));
                match (spec.next(ss, k), real.apply(&m).expect("same protocol")) {
                    (Some(n), Ok(new)) => {
                        ss = n;
                        real = new;
                        hist.push(m);
                    }
                    (None, Err(_)) => {
                        if byz {
                            cx.st.inc("fault.byzantine_message_rejected");
                        }
                    }
                    // disagreements were reported by the sweep above (same pair); end the session
                    _ => break 'session,
                }
            }
        }
        cx.st.progress = true;
        Ok(())
    }
}

pub fn def() -> CheckDef {
    CheckDef {
        prop: "C24",
        level: "exploration",
        batches: vec![batch(Sessions, 40_000, 4_000_000, false)],
        rule: "seeded two-party sessions (lengths 1..8, one in eight 9..40; one move in six Byzantine) over the 8 P2P protocols; at every state reached every message variant is applied once to the real State::apply and compared with the spec automaton (verdict, successor class, carried data); abstract states = (protocol, spec state, message) pairs swept; non-trivial = completed run with a non-neutral choice; distinct = distinct session traces",
        real: vec!["pallas_network2::protocol::{handshake,keepalive,chainsync,peersharing,blockfetch,txsubmission,leiosnotify,leiosfetch}::State::apply"],
        stub: vec!["the two parties are simulated senders (spec::proto conformant / Byzantine generators)"],
        assumptions: vec![
            "spec::proto tables (DESIGN.md Appendix A) transcribe the Ouroboros network specification; the two Leios automata come from the module documentation only",
            "value-level side conditions (cookie match, ack counts, list lengths) are don't-care",
        ],
        required: vec!["probe.accepted_as_specified", "probe.rejected_as_specified", "fault.byzantine_message_rejected", "probe.echoed_messages_offered"],
        env_nondeterminism: "none inside State::apply; the histories are those of a simulated peer pair (message order and Byzantine moves are seeded choices)",
    }
}
