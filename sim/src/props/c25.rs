//! C25 — handshake negotiation accepts only the highest common version.
use crate::core::*;
use crate::engines::p2p::adapter::*;
use crate::engines::p2p::sim::pid;
use futures::StreamExt;
use pallas_network2::behavior::responder::handshake::{HandshakeResponder, HandshakeResponderConfig};
use pallas_network2::behavior::responder::ResponderBehavior;
use pallas_network2::behavior::AnyMessage;
use pallas_network2::protocol as p;
use pallas_network2::{Behavior, BehaviorOutput, InterfaceCommand, InterfaceEvent};
use std::collections::BTreeSet;

pub fn gen_table(ch: &mut Choices, magics: &[u64]) -> p::handshake::n2n::VersionTable {
    // 0..16 versions from a pool of 18 numbers so overlaps and disjoint pairs are both common
    let n = match ch.draw("vt.size.class", 4) {
        0 => ch.draw("vt.size.small", 3),
        1 => ch.draw("vt.size.mid", 7),
        _ => ch.draw("vt.size", 17),
    };
    let lo = ch.draw("vt.lo", 10);
    let mut values = std::collections::HashMap::new();
    for _ in 0..n {
        let v = lo + ch.draw("vt.ver", 18);
        values.insert(v, gen_version_data(ch, magics));
    }
    p::handshake::n2n::VersionTable { values }
}

/// judge a responder's answer; `reply` None = no handshake message was sent
pub fn judge(
    cx: &mut RunCx,
    who: &str,
    ours: &[(u64, u64)],   // responder (version, magic)
    theirs: &[(u64, u64)], // initiator (version, magic)
    reply: Option<Result<(u64, u64), Option<Vec<u64>>>>, // Ok((version, magic of accepted data)) | Err(Some(version-mismatch list)) | Err(None)= other refusal
) -> Result<(), Violation> {
    let rk: BTreeSet<u64> = ours.iter().map(|x| x.0).collect();
    let ik: BTreeSet<u64> = theirs.iter().map(|x| x.0).collect();
    let common: BTreeSet<u64> = rk.intersection(&ik).copied().collect();
    let magic = |t: &[(u64, u64)], v: u64| t.iter().find(|x| x.0 == v).map(|x| x.1);
    match reply {
        Some(Ok((v, m))) => {
            cx.st.inc("probe.accepted");
            if !common.contains(&v) {
                return cx.report(Violation::new("negotiation", format!("{who}:accepted-version-not-common"), format!("accepted version {v}; responder offers {rk:?}, initiator offers {ik:?}")));
            }
            if let Some(h) = common.iter().max() {
                if *h > v {
                    return cx.report(Violation::new("negotiation", format!("{who}:higher-common-version-exists"), format!("accepted {v} although {h} is offered by both ({rk:?} / {ik:?})")));
                }
            }
            if Some(m) != magic(ours, v) || Some(m) != magic(theirs, v) {
                return cx.report(Violation::new(
                    "negotiation",
                    format!("{who}:magic-disagrees"),
                    format!("accepted version {v} with magic {m}; responder magic {:?}, initiator magic {:?}", magic(ours, v), magic(theirs, v)),
                ));
            }
        }
        Some(Err(list)) => {
            if common.is_empty() {
                cx.st.inc("probe.disjoint_refused");
                match list {
                    Some(vs) if vs.iter().copied().collect::<BTreeSet<u64>>() == rk => {}
                    Some(vs) => {
                        return cx.report(Violation::new("negotiation", format!("{who}:mismatch-list-wrong"), format!("VersionMismatch lists {vs:?}, responder versions are {rk:?}")));
                    }
                    None => {
                        return cx.report(Violation::new("negotiation", format!("{who}:disjoint-not-version-mismatch"), "disjoint tables refused with a reason other than VersionMismatch".to_string()));
                    }
                }
            } else {
                cx.st.inc("probe.refused_with_common_version");
            }
        }
        None => {
            if common.is_empty() {
                return cx.report(Violation::new("negotiation", format!("{who}:disjoint-no-refusal"), format!("disjoint tables ({rk:?} / {ik:?}) but no refusal was sent")));
            }
            cx.st.inc("probe.no_reply_with_common_version");
        }
    }
    Ok(())
}

pub struct Net2;
impl Scenario for Net2 {
    fn name(&self) -> &'static str {
        "net2-responder-negotiation"
    }
    fn run(&self, cx: &mut RunCx) -> Result<(), Violation> {
        let magics: Vec<u64> = if cx.ch.chance("one.magic", 1, 2) { vec![p::MAINNET_MAGIC] } else { vec![p::MAINNET_MAGIC, p::PREPROD_MAGIC, 2] };
        let ours = gen_table(&mut cx.ch, &magics);
        let theirs = gen_table(&mut cx.ch, &magics);
        let mut beh = ResponderBehavior { handshake: HandshakeResponder::new(HandshakeResponderConfig { supported_version: ours.clone() }), ..Default::default() };
        let id = pid(0);
        let mut tcx = std::task::Context::from_waker(futures::task::noop_waker_ref());
        let th = |t: &p::handshake::n2n::VersionTable| t.values.iter().map(|(k, v)| k * 31 + v.network_magic % 1000).sum::<u64>();
        cx.tr.ev("tables", &[ours.values.len() as u64, theirs.values.len() as u64, th(&ours), th(&theirs)]);
        cx.tr.note(|| format!("responder {:?}\ninitiator {:?}", ours, theirs));
        // a third of the runs: the same peer id had a connection before, negotiated something else on it,
        // and comes back - after the old connection's Disconnected notice, or overtaking it (the
        // listener's accept future is polled before the pool's disconnect future)
        if cx.ch.chance("prelude.reconnect", 1, 3) {
            let theirs0 = gen_table(&mut cx.ch, &magics);
            beh.handle_io(InterfaceEvent::Connected(id.clone()));
            beh.handle_io(InterfaceEvent::Recv(id.clone(), vec![AnyMessage::Handshake(p::handshake::Message::Propose(theirs0))]));
            while let std::task::Poll::Ready(Some(out)) = beh.poll_next_unpin(&mut tcx) {
                if let BehaviorOutput::InterfaceCommand(InterfaceCommand::Send(to, m)) = out {
                    if cx.ch.chance("prelude.sent", 3, 4) {
                        beh.handle_io(InterfaceEvent::Sent(to, m));
                    }
                }
            }
            match cx.ch.draw("prelude.end", 3) {
                0 => beh.handle_io(InterfaceEvent::Disconnected(id.clone())),
                1 => {
                    beh.handle_io(InterfaceEvent::Error(id.clone(), pallas_network2::InterfaceError::Other("reset".into())));
                    beh.handle_io(InterfaceEvent::Disconnected(id.clone()));
                }
                _ => {
                    beh.handle_io(InterfaceEvent::Error(id.clone(), pallas_network2::InterfaceError::Other("reset".into())));
                    cx.st.inc("fault.reconnect_overtakes_disconnect_notice");
                }
            }
            while let std::task::Poll::Ready(Some(_)) = beh.poll_next_unpin(&mut tcx) {}
            cx.st.inc("fault.peer_reconnects_with_other_table");
        }
        beh.handle_io(InterfaceEvent::Connected(id.clone()));
        // schedule noise around the proposal: housekeeping, other traffic of the same peer
        if cx.ch.chance("pre.housekeeping", 1, 3) {
            beh.handle_io(InterfaceEvent::Idle);
        }
        let mut batch = vec![AnyMessage::Handshake(p::handshake::Message::Propose(theirs.clone()))];
        if cx.ch.chance("piggyback.keepalive", 1, 4) {
            batch.push(AnyMessage::KeepAlive(p::keepalive::Message::KeepAlive(7)));
        }
        beh.handle_io(InterfaceEvent::Recv(id.clone(), batch));
        if cx.ch.chance("post.housekeeping", 1, 3) {
            beh.handle_io(InterfaceEvent::Idle);
        }
        let mut reply = None;
        let mut n_hs = 0;
        while let std::task::Poll::Ready(Some(out)) = beh.poll_next_unpin(&mut tcx) {
            if let BehaviorOutput::InterfaceCommand(InterfaceCommand::Send(to, AnyMessage::Handshake(m))) = out {
                if to != id {
                    return cx.report(Violation::new("negotiation", "net2:reply-to-wrong-peer", "handshake reply addressed to another peer"));
                }
                n_hs += 1;
                reply = Some(match m {
                    p::handshake::Message::Accept(v, d) => Ok((v, d.network_magic)),
                    p::handshake::Message::Refuse(p::handshake::RefuseReason::VersionMismatch(vs)) => Err(Some(vs)),
                    p::handshake::Message::Refuse(_) => Err(None),
                    other => {
                        return cx.report(Violation::new("negotiation", "net2:unexpected-reply", format!("{other:?}")));
                    }
                });
            }
        }
        if n_hs > 1 {
            cx.report(Violation::new("negotiation", "net2:multiple-replies", format!("{n_hs} handshake replies to one proposal")))?;
        }
        let o: Vec<(u64, u64)> = ours.values.iter().map(|(k, v)| (*k, v.network_magic)).collect();
        let t: Vec<(u64, u64)> = theirs.values.iter().map(|(k, v)| (*k, v.network_magic)).collect();
        judge(cx, "net2", &o, &t, reply)?;
        cx.st.progress = true;
        cx.st.steps += 1;
        Ok(())
    }
}

/// stack 1: real handshake::Client <-> real handshake::Server::handshake over two real Plexers
pub struct Net1 {
    pub n2c: bool,
}
impl Scenario for Net1 {
    fn name(&self) -> &'static str {
        if self.n2c { "net1-n2c-client-vs-server" } else { "net1-n2n-client-vs-server" }
    }
    fn run(&self, cx: &mut RunCx) -> Result<(), Violation> {
        use crate::engines::net1::*;
        use pallas_network::miniprotocols::handshake as hs;
        use pallas_network::multiplexer::Plexer;
        let magics: Vec<u64> = if cx.ch.chance("one.magic", 1, 2) { vec![764824073] } else { vec![764824073, 1, 2] };
        // tables as (version -> (magic, variant bits)); the same abstract table builds n2n or n2c data
        let mut mk = |cx: &mut RunCx| -> Vec<(u64, u64, u64)> {
            let n = match cx.ch.draw("vt.size.class", 4) { 0 => cx.ch.draw("vt.size.small", 3), 1 => cx.ch.draw("vt.size.mid", 7), _ => cx.ch.draw("vt.size", 17) };
            let lo = cx.ch.draw("vt.lo", 10);
            let mut m = std::collections::BTreeMap::new();
            for _ in 0..n {
                m.insert(lo + cx.ch.draw("vt.ver", 18), (*cx.ch.pick("vd.magic", &magics), cx.ch.draw("vd.variant", 4)));
            }
            m.into_iter().map(|(k, v)| (k, v.0, v.1)).collect()
        };
        let ours = mk(cx);
        let theirs = mk(cx);
        let n2c = self.n2c;
        let split = cx.ch.chance("split.propose", 1, 3);
        let pcfg = PipeCfg { stall: (cx.ch.draw("cfg.stall", 3), 8), short: (cx.ch.draw("cfg.short", 3), 4), ..Default::default() };
        cx.tr.ev("tables", &[ours.len() as u64, theirs.len() as u64, ours.iter().map(|x| x.0 * 31 + x.1).sum(), theirs.iter().map(|x| x.0 * 31 + x.1).sum()]);
        let o2: Vec<(u64, u64)> = ours.iter().map(|x| (x.0, x.1)).collect();
        let t2: Vec<(u64, u64)> = theirs.iter().map(|x| (x.0, x.1)).collect();
        let mut reply: Option<Result<(u64, u64), Option<Vec<u64>>>> = None;
        let reply_ref = &mut reply;
        run_sim(cx, |sh| async move {
            let (wa, rb) = pipe("a2b", &sh, &pcfg);
            let (wb, ra) = pipe("b2a", &sh, &pcfg);
            let mut pa = Plexer::new(bearer1(ra, wa));
            let mut pb = Plexer::new(bearer1(rb, wb));
            let (cch, sch) = (pa.subscribe_client(0), pb.subscribe_server(0));
            let mut cch2 = Some(cch);
            let (ra_, rb_) = (pa.spawn(), pb.spawn());
            let conf: Result<Option<Result<(u64, u64), Option<Vec<u64>>>>, Violation> = if n2c {
                let d = |v: u64, m: u64| hs::n2c::VersionData::new(m, match v { 0 => None, 1 => Some(false), _ => Some(true) });
                let st = hs::n2c::VersionTable { values: ours.iter().map(|x| (x.0, d(x.2, x.1))).collect() };
                let ct = hs::n2c::VersionTable { values: theirs.iter().map(|x| (x.0, d(x.2, x.1))).collect() };
                let mut server = hs::N2CServer::new(sch);
                let srv = tokio::spawn(chaos_auto(async move { server.handshake(st).await.map(|_| ()).map_err(|e| e.to_string()) }, &sh, (1, 8)));
                let c = if split {
                    let cch2 = cch2.take().unwrap();
                    match split_propose(&sh, cch2, crate::engines::net1::msgs::M1::HsC(hs::Message::Propose(ct)), crate::engines::net1::msgs::HSC).await {
                        Ok(crate::engines::net1::msgs::M1::HsC(hs::Message::Accept(v, d))) => Ok(hs::Confirmation::Accepted(v, d)),
                        Ok(crate::engines::net1::msgs::M1::HsC(hs::Message::Refuse(r))) => Ok(hs::Confirmation::Rejected(r)),
                        Ok(other) => return Err(Violation::new("negotiation", "net1:split-proposal:unexpected-answer", other.render())),
                        Err(v) => return Err(v),
                    }
                } else {
                    hs::N2CClient::new(cch2.take().unwrap()).handshake(ct).await
                };
                let _ = srv.await;
                match c {
                    Ok(hs::Confirmation::Accepted(v, data)) => {
                        // n2c VersionData fields are private: recover the magic from its encoding
                        let enc = pallas_codec::minicbor::to_vec(&data).unwrap();
                        let magic = match crate::spec::cbor::parse_one(&enc).map(|i| i.v) {
                            Ok(crate::spec::cbor::V::U(m)) => m,
                            Ok(crate::spec::cbor::V::A(xs)) => xs[0].uint().unwrap_or(u64::MAX),
                            _ => u64::MAX,
                        };
                        Ok(Some(Ok((v, magic))))
                    }
                    Ok(hs::Confirmation::Rejected(hs::RefuseReason::VersionMismatch(vs))) => Ok(Some(Err(Some(vs)))),
                    Ok(hs::Confirmation::Rejected(_)) => Ok(Some(Err(None))),
                    Ok(hs::Confirmation::QueryReply(_)) => Err(Violation::new("negotiation", "net1:unexpected-query-reply", "server answered with QueryReply")),
                    Err(e) => Err(Violation::new("negotiation", "net1:client-error", e.to_string())),
                }
            } else {
                let d = |v: u64, m: u64| if v < 2 { hs::n2n::VersionData::new(m, v == 1, None, None) } else { hs::n2n::VersionData::new(m, false, Some(1), Some(v == 3)) };
                let st = hs::n2n::VersionTable { values: ours.iter().map(|x| (x.0, d(x.2, x.1))).collect() };
                let ct = hs::n2n::VersionTable { values: theirs.iter().map(|x| (x.0, d(x.2, x.1))).collect() };
                let mut server = hs::N2NServer::new(sch);
                let srv = tokio::spawn(chaos_auto(async move { server.handshake(st).await.map(|_| ()).map_err(|e| e.to_string()) }, &sh, (1, 8)));
                let c = if split {
                    let cch2 = cch2.take().unwrap();
                    match split_propose(&sh, cch2, crate::engines::net1::msgs::M1::HsN(hs::Message::Propose(ct)), crate::engines::net1::msgs::HSN).await {
                        Ok(crate::engines::net1::msgs::M1::HsN(hs::Message::Accept(v, d))) => Ok(hs::Confirmation::Accepted(v, d)),
                        Ok(crate::engines::net1::msgs::M1::HsN(hs::Message::Refuse(r))) => Ok(hs::Confirmation::Rejected(r)),
                        Ok(other) => return Err(Violation::new("negotiation", "net1:split-proposal:unexpected-answer", other.render())),
                        Err(v) => return Err(v),
                    }
                } else {
                    hs::N2NClient::new(cch2.take().unwrap()).handshake(ct).await
                };
                let _ = srv.await;
                match c {
                    Ok(hs::Confirmation::Accepted(v, data)) => Ok(Some(Ok((v, data.network_magic)))),
                    Ok(hs::Confirmation::Rejected(hs::RefuseReason::VersionMismatch(vs))) => Ok(Some(Err(Some(vs)))),
                    Ok(hs::Confirmation::Rejected(_)) => Ok(Some(Err(None))),
                    Ok(hs::Confirmation::QueryReply(_)) => Err(Violation::new("negotiation", "net1:unexpected-query-reply", "server answered with QueryReply")),
                    Err(e) => Err(Violation::new("negotiation", "net1:client-error", e.to_string())),
                }
            };
            ra_.abort().await;
            rb_.abort().await;
            sh.lock().unwrap().st.progress = true;
            *reply_ref = conf?;
            Ok(())
        })?;
        judge(cx, "net1", &o2, &t2, reply)?;
        cx.st.steps += 1;
        Ok(())
    }
}

/// A simulated initiator that delivers its `Propose` in several mux segments (legal for the multiplexer,
/// never produced by pallas' own client): the encoding is cut at seeded offsets and every piece enqueued as
/// its own chunk; the answer is read back with the real `recv_full_msg`.
async fn split_propose(sh: &crate::engines::net1::Sh, mut ch: pallas_network::multiplexer::AgentChannel, propose: crate::engines::net1::msgs::M1, p: usize) -> Result<crate::engines::net1::msgs::M1, Violation> {
    use crate::engines::net1::*;
    let enc = propose.encode().map_err(|e| Violation::new("setup", "propose-encode", e))?;
    let n = enc.len();
    let mut cuts: Vec<usize> = vec![];
    match draw(sh, "split.style", 4) {
        0 => cuts.push(1 + draw(sh, "split.at", n as u64 - 1) as usize),
        1 => cuts.extend(1..n.min(40)), // one byte per segment for the first bytes
        2 => {
            for _ in 0..(1 + draw(sh, "split.k", 4)) {
                cuts.push(1 + draw(sh, "split.at", n as u64 - 1) as usize);
            }
        }
        _ => cuts.extend([1, n - 1]),
    }
    cuts.push(n);
    cuts.sort();
    cuts.dedup();
    inc(sh, "fault.proposal_split_across_segments");
    let mut prev = 0;
    for c in cuts {
        if c <= prev || c > n {
            continue;
        }
        ch.enqueue_chunk(enc[prev..c].to_vec()).await.map_err(|e| Violation::new("wire", "split-enqueue", e.to_string()))?;
        prev = c;
        pause(sh, "split.pause", 1, 2).await;
    }
    let mut b = pallas_network::multiplexer::ChannelBuffer::new(ch);
    match tokio::time::timeout(std::time::Duration::from_secs(20), msgs::recv1(p, &mut b)).await {
        Ok(Ok(m)) => Ok(m),
        Ok(Err(e)) => Err(Violation::new("negotiation", "net1:split-proposal:no-decodable-answer", e.to_string())),
        Err(_) => Err(Violation::new("negotiation", "net1:split-proposal:no-answer", "the responder did not answer a proposal delivered in several segments")),
    }
}

pub fn def() -> CheckDef {
    CheckDef {
        prop: "C25",
        level: "exploration",
        batches: vec![batch(Net2, 80_000, 5_000_000, false), batch(Net1 { n2c: false }, 6_000, 400_000, true), batch(Net1 { n2c: true }, 6_000, 400_000, true)],
        rule: "seeded pairs of version tables (0..16 versions from a sliding pool of 18 numbers, 1 or 3 magics, both VersionData shapes) negotiated by the real responders; oracle: accepted version is common, no higher common version, accepted magic equals both sides' magic; disjoint tables -> Refuse(VersionMismatch(responder versions)); non-trivial = run with a non-neutral choice; distinct = distinct (table sizes, noise) traces",
        real: vec!["pallas_network2 ResponderBehavior + HandshakeResponder::try_accept_handshake", "protocol::handshake::State::apply", "pallas_network handshake::{N2NClient,N2CClient}::handshake <-> handshake::{N2NServer,N2CServer}::handshake over two real Plexers"],
        stub: vec!["the initiator is a simulated peer proposing a seeded table", "Interface (events injected directly)"],
        assumptions: vec!["a refusal while a common version exists (e.g. magic mismatch at the highest common version) is allowed: the statement constrains acceptances and the disjoint case only"],
        required: vec!["probe.accepted", "probe.disjoint_refused", "probe.refused_with_common_version", "fault.proposal_split_across_segments", "fault.reconnect_overtakes_disconnect_notice"],
        env_nondeterminism: "HashMap iteration order of both version tables (seeded through the getrandom shim); housekeeping/piggy-backed traffic around the proposal",
    }
}
