//! C27 — peer promotion keeps peer sets consistent and banned peers away.
use crate::core::*;
use crate::engines::p2p::sim::{Cfg, Sim};

pub struct Promo {
    pub name: &'static str,
    pub pool: u64,
    pub steps: u64,
    pub byz: bool,
    pub faults: bool,
}

impl Scenario for Promo {
    fn name(&self) -> &'static str {
        self.name
    }
    fn run(&self, cx: &mut RunCx) -> Result<(), Violation> {
        let cfg = Cfg {
            max_peers_pool: self.pool,
            max_steps: self.steps,
            byzantine: self.byz,
            conn_faults: self.faults,
            prompt_sent: cx.ch.chance("prompt_sent", 1, 2),
            small_limits: true,
            check_c27: true,
            check_c28: false,
            leios: false,
            lockstep: false,
        };
        Sim::new(cx, cfg).run()
    }
}

pub fn def() -> CheckDef {
    CheckDef {
        prop: "C27",
        level: "exploration",
        batches: vec![
            batch(Promo { name: "promotion-3peers-short", pool: 3, steps: 40, byz: false, faults: false }, 60_000, 3_000_000, false),
            batch(Promo { name: "promotion-3peers-faulty", pool: 3, steps: 60, byz: true, faults: true }, 60_000, 3_000_000, true),
            batch(Promo { name: "promotion-20peers-long", pool: 20, steps: 200, byz: true, faults: true }, 20_000, 1_000_000, true),
        ],
        rule: "seeded histories of include/ban/demote/sync commands, housekeeping passes and interface events of the faithful connection model (connect ok/fail, reset, Byzantine protocol violations, peer-sharing discoveries) over 1..3 or 1..20 peers with limits max_peers 1..6, max_warm 0..4, max_hot 0..3, max_error_count 0..2; invariants after every step; abstract state = (|cold|,|warm|,|hot|,|banned|); non-trivial = completed history with a non-neutral choice; distinct = distinct event traces",
        real: vec!["InitiatorBehavior (all visitors)", "PromotionBehavior", "ConnectionBehavior", "HandshakeBehavior", "DiscoveryBehavior", "protocol::*::State::apply", "OutboundQueue"],
        stub: vec!["Interface (simulated, discrete-event)", "Manager (replaced by the seeded event loop)", "remote peers (spec::proto responders, optionally Byzantine)"],
        assumptions: vec![
            "BanPeer for a peer the initiator does not track is not judged (the command is a no-op there)",
            "a peer counts as banned from the step it appears in the banned set or a BanPeer command for a tracked peer was executed",
        ],
        required: vec!["probe.connect_cmds", "probe.ban_command_on_tracked_peer", "probe.peer_entered_banned_set", "fault.connection_reset", "fault.byzantine_message", "probe.peer_initialized"],
        env_nondeterminism: "order of commands vs. interface events vs. output draining; connect failures and resets; std HashMap iteration order (seeded through the getrandom shim)",
    }
}
