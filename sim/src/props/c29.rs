//! C29 — P2P behaviours never panic on peer-driven input.
use crate::core::*;
use crate::engines::p2p::adapter::*;
use crate::engines::p2p::sim::{pid, Cfg, Sim};
use futures::StreamExt;
use pallas_network2::behavior::responder::{ResponderBehavior, ResponderCommand};
use pallas_network2::behavior::{AnyMessage, InitiatorBehavior, InitiatorCommand};
use pallas_network2::protocol as p;
use pallas_network2::{Behavior, BehaviorOutput, InterfaceCommand, InterfaceError, InterfaceEvent, PeerId};

/// generator (i): faithful connection model, Byzantine peers, faults
pub struct ByzInitiator;
impl Scenario for ByzInitiator {
    fn name(&self) -> &'static str {
        "initiator-byzantine-peers"
    }
    fn run(&self, cx: &mut RunCx) -> Result<(), Violation> {
        let cfg = Cfg {
            max_peers_pool: 8,
            max_steps: 300,
            byzantine: true,
            conn_faults: true,
            prompt_sent: cx.ch.chance("prompt_sent", 1, 2),
            small_limits: cx.ch.chance("small_limits", 1, 2),
            check_c27: false,
            check_c28: false,
            leios: true,
            lockstep: false,
        };
        Sim::new(cx, cfg).run()
    }
}

fn any_msg(ch: &mut Choices) -> AnyMessage {
    let proto = ch.draw("any.proto", NPROTO as u64) as usize;
    let k = ch.draw("any.kind", SPECS[proto].msgs.len() as u64) as u8;
    if proto == PS && k == 1 && ch.chance("any.hugepeers", 1, 6) {
        return AnyMessage::PeerSharing(p::peersharing::Message::SharePeers(
            (0..400u32).map(|j| p::peersharing::PeerAddress::V4(std::net::Ipv4Addr::from_bits(0x0a000001 + (j % 50)), 3000 + (j % 50) as u16)).collect(),
        ));
    }
    gen_msg(proto, k, ch)
}

fn some_peer(ch: &mut Choices, n: u64) -> PeerId {
    let i = ch.draw("peer", n + 2);
    if i >= n { PeerId { host: format!("unknown-{}", i - n), port: 1 } } else { pid(i as usize) }
}

/// generator (ii): any InterfaceEvent for any known or unknown peer in any order,
/// interleaved with all commands.
fn unconstrained<B>(cx: &mut RunCx, beh: &mut B, mut gen_cmd: impl FnMut(&mut Choices, u64) -> B::Command) -> Result<(), Violation>
where
    B: Behavior<Message = AnyMessage>,
{
    let n = cx.ch.range("peers", 1, 8);
    let steps = cx.ch.range("steps", 1, 300);
    let mut produced: Vec<(PeerId, AnyMessage)> = vec![];
    let mut tcx = std::task::Context::from_waker(futures::task::noop_waker_ref());
    for _ in 0..steps {
        cx.st.steps += 1;
        match cx.ch.draw("step", 10) {
            0 => {
                let id = some_peer(&mut cx.ch, n);
                cx.tr.ev("io.connected", &[]);
                beh.handle_io(InterfaceEvent::Connected(id));
            }
            1 => {
                let id = some_peer(&mut cx.ch, n);
                cx.tr.ev("io.disconnected", &[]);
                beh.handle_io(InterfaceEvent::Disconnected(id));
            }
            2 => {
                let id = some_peer(&mut cx.ch, n);
                cx.tr.ev("io.error", &[]);
                beh.handle_io(InterfaceEvent::Error(id, InterfaceError::Other("x".into())));
            }
            3 | 4 => {
                let id = some_peer(&mut cx.ch, n);
                let k = cx.ch.draw("recv.n", 4);
                let ms: Vec<AnyMessage> = (0..k).map(|_| any_msg(&mut cx.ch)).collect();
                cx.tr.ev("io.recv", &[k]);
                cx.tr.note(|| format!("recv {:?}", ms));
                cx.st.add("fault.arbitrary_inbound_message", k);
                beh.handle_io(InterfaceEvent::Recv(id, ms));
            }
            5 => {
                // Sent: either something the behaviour really produced, or anything at all
                let (id, m) = if !produced.is_empty() && cx.ch.chance("sent.real", 2, 3) {
                    let j = cx.ch.draw("sent.idx", produced.len() as u64) as usize;
                    produced.remove(j)
                } else {
                    (some_peer(&mut cx.ch, n), any_msg(&mut cx.ch))
                };
                cx.tr.ev("io.sent", &[]);
                cx.tr.note(|| format!("sent {:?}", m));
                beh.handle_io(InterfaceEvent::Sent(id, m));
            }
            6 => {
                cx.tr.ev("io.idle", &[]);
                beh.handle_io(InterfaceEvent::Idle);
            }
            7 | 8 => {
                cx.tr.ev("cmd", &[]);
                let c = gen_cmd(&mut cx.ch, n);
                beh.execute(c);
            }
            _ => {
                let k = cx.ch.draw("poll.n", 8) + 1;
                for _ in 0..k {
                    match beh.poll_next_unpin(&mut tcx) {
                        std::task::Poll::Ready(Some(BehaviorOutput::InterfaceCommand(InterfaceCommand::Send(id, m)))) => {
                            cx.st.inc("probe.outputs");
                            if produced.len() < 64 {
                                produced.push((id, m));
                            }
                        }
                        std::task::Poll::Ready(Some(_)) => cx.st.inc("probe.outputs"),
                        _ => break,
                    }
                }
            }
        }
    }
    // the stream keeps being pollable
    let mut guard = 0;
    while let std::task::Poll::Ready(Some(_)) = beh.poll_next_unpin(&mut tcx) {
        guard += 1;
        if guard > 100_000 {
            return Err(Violation::new("liveness", "unbounded-output", "behaviour produced > 100000 outputs without input"));
        }
    }
    cx.st.progress = true;
    Ok(())
}

pub struct AnyInitiator;
impl Scenario for AnyInitiator {
    fn name(&self) -> &'static str {
        "initiator-any-event-order"
    }
    fn run(&self, cx: &mut RunCx) -> Result<(), Violation> {
        let mut beh = InitiatorBehavior::default();
        unconstrained(cx, &mut beh, |ch, n| {
            let id = some_peer(ch, n);
            match ch.draw("cmd.kind", 11) {
                0 | 1 => InitiatorCommand::IncludePeer(id),
                2 => InitiatorCommand::Housekeeping,
                3 => InitiatorCommand::StartSync((0..ch.draw("pts", 3)).map(|_| gen_point(ch)).collect()),
                4 => InitiatorCommand::ContinueSync(id),
                5 => InitiatorCommand::RequestBlocks((gen_point(ch), gen_point(ch))),
                6 => InitiatorCommand::SendTx(id, gen_era_txid(ch), p::txsubmission::EraTxBody(1, gen_blob(ch, 50))),
                7 => InitiatorCommand::FetchEb(id, gen_point(ch)),
                8 => InitiatorCommand::FetchEbTxs(id, gen_point(ch), gen_bitmaps(ch)),
                9 => InitiatorCommand::BanPeer(id),
                _ => InitiatorCommand::DemotePeer(id),
            }
        })
    }
}

pub struct AnyResponder;
impl Scenario for AnyResponder {
    fn name(&self) -> &'static str {
        "responder-any-event-order"
    }
    fn run(&self, cx: &mut RunCx) -> Result<(), Violation> {
        let mut beh = ResponderBehavior::default();
        unconstrained(cx, &mut beh, |ch, n| {
            let id = some_peer(ch, n);
            match ch.draw("cmd.kind", 15) {
                0 | 1 => ResponderCommand::Housekeeping,
                2 => ResponderCommand::ProvideIntersection(id, gen_point(ch), gen_tip(ch)),
                3 => ResponderCommand::ProvideHeader(id, gen_header(ch), gen_tip(ch)),
                4 => ResponderCommand::ProvideRollback(id, gen_point(ch), gen_tip(ch)),
                5 => ResponderCommand::ProvideBlocks(id, (0..ch.draw("blocks", 4)).map(|_| gen_blob(ch, 100)).collect()),
                6 => ResponderCommand::ProvidePeers(id, (0..ch.draw("peers.n", 4)).map(|_| gen_peer_addr(ch)).collect()),
                7 => ResponderCommand::ProvideEbAnnouncement(id, gen_anycbor(ch)),
                8 => ResponderCommand::ProvideEbOffer(id, gen_point(ch), 7),
                9 => ResponderCommand::ProvideEbTxsOffer(id, gen_point(ch)),
                10 => ResponderCommand::ProvideVotes(id, vec![gen_anycbor(ch)]),
                11 => ResponderCommand::ProvideEb(id, gen_anycbor(ch)),
                12 => ResponderCommand::ProvideEbTxs(id, gen_point(ch), gen_bitmaps(ch), vec![gen_anycbor(ch)]),
                13 => ResponderCommand::BanPeer(id),
                _ => ResponderCommand::DisconnectPeer(id),
            }
        })
    }
}

pub fn def() -> CheckDef {
    CheckDef {
        prop: "C29",
        level: "exploration",
        batches: vec![
            batch(ByzInitiator, 30_000, 1_500_000, true),
            batch(AnyInitiator, 40_000, 2_000_000, true),
            batch(AnyResponder, 40_000, 2_000_000, true),
        ],
        rule: "histories of up to 300 events over 1..8 known and 2 unknown peers: (i) faithful connection model with Byzantine peers (any message of any protocol in any state, huge peer lists, numeric extremes), resets and connect failures; (ii) unconstrained alphabet - any InterfaceEvent (Connected/Disconnected/Error/Recv/Sent/Idle) for any peer in any order interleaved with every command; oracle: no panic, output stream stays pollable and finite; non-trivial = completed history with a non-neutral choice; distinct = distinct event traces",
        real: vec!["InitiatorBehavior", "ResponderBehavior", "all sub-behaviours/visitors", "protocol::*::State::apply", "OutboundQueue"],
        stub: vec!["Interface (simulated)", "Manager (seeded loop)", "peers (Byzantine generators)"],
        assumptions: vec!["built with overflow checks on, so arithmetic overflow counts as a panic (as in the repository's own test profile)"],
        required: vec!["fault.arbitrary_inbound_message", "fault.byzantine_message", "fault.connection_reset", "probe.outputs"],
        env_nondeterminism: "event order, peer misbehaviour, connection faults, HashMap iteration order",
    }
}
