//! C29 — P2P behaviours never panic on peer-driven input.
use crate::core::*;
use crate::engines::p2p::adapter::*;
use crate::engines::p2p::sim::{pid, Cfg, Sim};
use futures::StreamExt;
use pallas_network2::behavior::responder::{ResponderBehavior, ResponderCommand};
use pallas_network2::behavior::{AnyMessage, InitiatorBehavior, InitiatorCommand};
use pallas_network2::protocol as p;
use pallas_network2::{Behavior, BehaviorOutput, InterfaceCommand, InterfaceError, InterfaceEvent, PeerId};

/// generator (i): faithful connection model, Byzantine peers, faults
pub struct ByzInitiator;
impl Scenario for ByzInitiator {
    fn name(&self) -> &'static str {
        "initiator-byzantine-peers"
    }
    fn run(&self, cx: &mut RunCx) -> Result<(), Violation> {
        let cfg = Cfg {
            max_peers_pool: 8,
            max_steps: 300,
            byzantine: true,
            conn_faults: true,
            prompt_sent: cx.ch.chance("prompt_sent", 1, 2),
            small_limits: cx.ch.chance("small_limits", 1, 2),
            check_c27: false,
            check_c28: false,
            leios: true,
            lockstep: false,
        };
        Sim::new(cx, cfg).run()
    }
}

fn any_msg(ch: &mut Choices) -> AnyMessage {
    let proto = ch.draw("any.proto", NPROTO as u64) as usize;
    let k = ch.draw("any.kind", SPECS[proto].msgs.len() as u64) as u8;
    if proto == PS && k == 1 && ch.chance("any.hugepeers", 1, 6) {
        let md = if ch.chance("any.hugepeers.distinct", 1, 2) { 400 } else { 50 };
        return AnyMessage::PeerSharing(p::peersharing::Message::SharePeers(
            (0..400u32).map(|j| p::peersharing::PeerAddress::V4(std::net::Ipv4Addr::from_bits(0x0a000001 + (j % md)), 3000 + (j % md) as u16)).collect(),
        ));
    }
    gen_msg(proto, k, ch)
}

fn some_peer(ch: &mut Choices, n: u64) -> PeerId {
    let i = ch.draw("peer", n + 2);
    if i >= n { PeerId { host: format!("unknown-{}", i - n), port: 1 } } else { pid(i as usize) }
}

/// generator (ii): any InterfaceEvent for any known or unknown peer in any order,
/// interleaved with all commands.
fn unconstrained<B>(cx: &mut RunCx, beh: &mut B, mut gen_cmd: impl FnMut(&mut Choices, u64) -> B::Command) -> Result<(), Violation>
where
    B: Behavior<Message = AnyMessage>,
{
    let n = cx.ch.range("peers", 1, 8);
    let steps = cx.ch.range("steps", 1, 300);
    let mut produced: Vec<(PeerId, AnyMessage)> = vec![];
    let mut tcx = std::task::Context::from_waker(futures::task::noop_waker_ref());
    for _ in 0..steps {
        cx.st.steps += 1;
        match cx.ch.draw("step", 10) {
            0 => {
                let id = some_peer(&mut cx.ch, n);
                cx.tr.ev("io.connected", &[]);
                beh.handle_io(InterfaceEvent::Connected(id));
            }
            1 => {
                let id = some_peer(&mut cx.ch, n);
                cx.tr.ev("io.disconnected", &[]);
                beh.handle_io(InterfaceEvent::Disconnected(id));
            }
            2 => {
                let id = some_peer(&mut cx.ch, n);
                cx.tr.ev("io.error", &[]);
                beh.handle_io(InterfaceEvent::Error(id, InterfaceError::Other("x".into())));
            }
            3 | 4 => {
                let id = some_peer(&mut cx.ch, n);
                let k = cx.ch.draw("recv.n", 4);
                let ms: Vec<AnyMessage> = (0..k).map(|_| any_msg(&mut cx.ch)).collect();
                cx.tr.ev("io.recv", &[k]);
                cx.tr.note(|| format!("recv {:?}", ms));
                cx.st.add("fault.arbitrary_inbound_message", k);
                beh.handle_io(InterfaceEvent::Recv(id, ms));
            }
            5 => {
                // Sent: either something the behaviour really produced, or anything at all
                let (id, m) = if !produced.is_empty() && cx.ch.chance("sent.real", 2, 3) {
                    let j = cx.ch.draw("sent.idx", produced.len() as u64) as usize;
                    produced.remove(j)
                } else {
                    (some_peer(&mut cx.ch, n), any_msg(&mut cx.ch))
                };
                cx.tr.ev("io.sent", &[]);
                cx.tr.note(|| format!("sent {:?}", m));
                beh.handle_io(InterfaceEvent::Sent(id, m));
            }
            6 => {
                cx.tr.ev("io.idle", &[]);
                beh.handle_io(InterfaceEvent::Idle);
            }
            7 | 8 => {
                cx.tr.ev("cmd", &[]);
                let c = gen_cmd(&mut cx.ch, n);
                beh.execute(c);
            }
            _ => {
                let k = cx.ch.draw("poll.n", 8) + 1;
                for _ in 0..k {
                    match beh.poll_next_unpin(&mut tcx) {
                        std::task::Poll::Ready(Some(BehaviorOutput::InterfaceCommand(InterfaceCommand::Send(id, m)))) => {
                            cx.st.inc("probe.outputs");
                            if produced.len() < 64 {
                                produced.push((id, m));
                            }
                        }
                        std::task::Poll::Ready(Some(_)) => cx.st.inc("probe.outputs"),
                        _ => break,
                    }
                }
            }
        }
    }
    // the stream keeps being pollable
    let mut guard = 0;
    while let std::task::Poll::Ready(Some(_)) = beh.poll_next_unpin(&mut tcx) {
        guard += 1;
        if guard > 100_000 {
            return Err(Violation::new("liveness", "unbounded-output", "behaviour produced > 100000 outputs without input"));
        }
    }
    cx.st.progress = true;
    Ok(())
}

pub struct AnyInitiator;
impl Scenario for AnyInitiator {
    fn name(&self) -> &'static str {
        "initiator-any-event-order"
    }
    fn run(&self, cx: &mut RunCx) -> Result<(), Violation> {
        let mut beh = InitiatorBehavior::default();
        unconstrained(cx, &mut beh, |ch, n| {
            let id = some_peer(ch, n);
            match ch.draw("cmd.kind", 11) {
                0 | 1 => InitiatorCommand::IncludePeer(id),
                2 => InitiatorCommand::Housekeeping,
                3 => InitiatorCommand::StartSync((0..ch.draw("pts", 3)).map(|_| gen_point(ch)).collect()),
                4 => InitiatorCommand::ContinueSync(id),
                5 => InitiatorCommand::RequestBlocks((gen_point(ch), gen_point(ch))),
                6 => InitiatorCommand::SendTx(id, gen_era_txid(ch), p::txsubmission::EraTxBody(1, gen_blob(ch, 50))),
                7 => InitiatorCommand::FetchEb(id, gen_point(ch)),
                8 => InitiatorCommand::FetchEbTxs(id, gen_point(ch), gen_bitmaps(ch)),
                9 => InitiatorCommand::BanPeer(id),
                _ => InitiatorCommand::DemotePeer(id),
            }
        })
    }
}

pub struct AnyResponder;
impl Scenario for AnyResponder {
    fn name(&self) -> &'static str {
        "responder-any-event-order"
    }
    fn run(&self, cx: &mut RunCx) -> Result<(), Violation> {
        let mut beh = ResponderBehavior::default();
        unconstrained(cx, &mut beh, |ch, n| {
            let id = some_peer(ch, n);
            match ch.draw("cmd.kind", 15) {
                0 | 1 => ResponderCommand::Housekeeping,
                2 => ResponderCommand::ProvideIntersection(id, gen_point(ch), gen_tip(ch)),
                3 => ResponderCommand::ProvideHeader(id, gen_header(ch), gen_tip(ch)),
                4 => ResponderCommand::ProvideRollback(id, gen_point(ch), gen_tip(ch)),
                5 => ResponderCommand::ProvideBlocks(id, (0..ch.draw("blocks", 4)).map(|_| gen_blob(ch, 100)).collect()),
                6 => ResponderCommand::ProvidePeers(id, (0..ch.draw("peers.n", 4)).map(|_| gen_peer_addr(ch)).collect()),
                7 => ResponderCommand::ProvideEbAnnouncement(id, gen_anycbor(ch)),
                8 => ResponderCommand::ProvideEbOffer(id, gen_point(ch), 7),
                9 => ResponderCommand::ProvideEbTxsOffer(id, gen_point(ch)),
                10 => ResponderCommand::ProvideVotes(id, vec![gen_anycbor(ch)]),
                11 => ResponderCommand::ProvideEb(id, gen_anycbor(ch)),
                12 => ResponderCommand::ProvideEbTxs(id, gen_point(ch), gen_bitmaps(ch), vec![gen_anycbor(ch)]),
                13 => ResponderCommand::BanPeer(id),
                _ => ResponderCommand::DisconnectPeer(id),
            }
        })
    }
}

/// generator (i) for the responder: simulated initiators (conformant clients that follow the spec
/// automata, one in three Byzantine) connect, handshake and issue requests; the application answers the
/// responder's external events with Provide* commands; `Sent` confirmations are delayed; errors and
/// disconnects strike at any point.
pub struct ByzResponder;
impl Scenario for ByzResponder {
    fn name(&self) -> &'static str {
        "responder-byzantine-initiators"
    }
    fn run(&self, cx: &mut RunCx) -> Result<(), Violation> {
        use crate::spec::proto::Agency;
        use pallas_network2::behavior::responder::ResponderEvent;
        use std::collections::VecDeque;
        let n = cx.ch.range("peers", 1, 6) as usize;
        let steps = cx.ch.range("steps", 1, 300);
        let mut beh = ResponderBehavior::default();
        struct Cl {
            up: bool,
            byz: bool,
            spec: [u8; NPROTO],
            sentq: VecDeque<AnyMessage>,
        }
        let mut cl: Vec<Cl> = (0..n).map(|_| Cl { up: false, byz: false, spec: [0; NPROTO], sentq: VecDeque::new() }).collect();
        for c in cl.iter_mut() {
            c.byz = cx.ch.chance("peer.byz", 1, 3);
        }
        let mut pending_events: VecDeque<ResponderEvent> = VecDeque::new();
        let mut tcx = std::task::Context::from_waker(futures::task::noop_waker_ref());
        for _ in 0..steps {
            cx.st.steps += 1;
            let i = cx.ch.draw("peer", n as u64) as usize;
            let id = pid(i);
            match cx.ch.draw("step", 12) {
                0 => {
                    cx.tr.ev("io.connected", &[i as u64]);
                    cl[i].up = true;
                    cl[i].spec = [0; NPROTO];
                    cl[i].sentq.clear();
                    beh.handle_io(InterfaceEvent::Connected(id));
                }
                1 | 2 | 3 | 4 => {
                    // the client sends: a legal client move on some protocol, or (Byzantine) anything
                    if !cl[i].up {
                        continue;
                    }
                    let m = if cl[i].byz && cx.ch.chance("byz.msg", 1, 2) {
                        cx.st.inc("fault.byzantine_message");
                        any_msg(&mut cx.ch)
                    } else {
                        let cands: Vec<usize> = (0..NPROTO).filter(|q| SPECS[*q].agency(cl[i].spec[*q]) == Agency::Client).collect();
                        if cands.is_empty() {
                            continue;
                        }
                        // handshake first, as a real initiator does
                        let proto = if cl[i].spec[HS] == 0 { HS } else { cands[cx.ch.draw("cl.proto", cands.len() as u64) as usize] };
                        let legal = SPECS[proto].legal(cl[i].spec[proto]);
                        let (k, nx) = legal[cx.ch.draw("cl.move", legal.len() as u64) as usize];
                        cl[i].spec[proto] = nx;
                        if proto == HS {
                            // propose something the default responder (version 13, mainnet) may accept
                            let mut t = gen_version_table(&mut cx.ch, 3, &MAGICS);
                            if cx.ch.chance("hs.compatible", 3, 4) {
                                t.values.insert(13, p::handshake::n2n::VersionData::new(p::MAINNET_MAGIC, false, Some(1), Some(false)));
                            }
                            AnyMessage::Handshake(p::handshake::Message::Propose(t))
                        } else {
                            gen_msg(proto, k, &mut cx.ch)
                        }
                    };
                    cx.tr.ev("io.recv", &[i as u64]);
                    cx.tr.note(|| format!("client {i} sends {:?}", m));
                    cx.st.inc("probe.client_messages");
                    beh.handle_io(InterfaceEvent::Recv(id, vec![m]));
                }
                5 | 6 => {
                    // hand over outputs: Sends reach the client (its view advances), events go to the application
                    for _ in 0..1 + cx.ch.draw("drain.n", 6) {
                        match beh.poll_next_unpin(&mut tcx) {
                            std::task::Poll::Ready(Some(BehaviorOutput::InterfaceCommand(InterfaceCommand::Send(to, m)))) => {
                                cx.st.inc("probe.outputs");
                                if let Some(j) = (0..n).find(|j| pid(*j) == to) {
                                    let (pp, kk) = kind(&m);
                                    if let Some(nx) = SPECS[pp].next(cl[j].spec[pp], kk) {
                                        if SPECS[pp].agency(cl[j].spec[pp]) == Agency::Server {
                                            cl[j].spec[pp] = nx;
                                        }
                                    }
                                    cl[j].sentq.push_back(m);
                                }
                            }
                            std::task::Poll::Ready(Some(BehaviorOutput::InterfaceCommand(InterfaceCommand::Disconnect(to)))) => {
                                cx.st.inc("probe.outputs");
                                if let Some(j) = (0..n).find(|j| pid(*j) == to) {
                                    cl[j].up = false;
                                }
                                beh.handle_io(InterfaceEvent::Disconnected(to));
                            }
                            std::task::Poll::Ready(Some(BehaviorOutput::ExternalEvent(e))) => {
                                cx.st.inc("probe.outputs");
                                pending_events.push_back(e);
                            }
                            std::task::Poll::Ready(Some(_)) => cx.st.inc("probe.outputs"),
                            _ => break,
                        }
                    }
                }
                7 => {
                    // a delayed Sent confirmation arrives
                    if let Some(m) = cl[i].sentq.pop_front() {
                        cx.tr.ev("io.sent", &[i as u64]);
                        beh.handle_io(InterfaceEvent::Sent(id, m));
                    }
                }
                8 | 9 => {
                    // the application serves one pending request (or, rarely, something unasked for)
                    let cmd = match pending_events.pop_front() {
                        Some(ResponderEvent::IntersectionRequested(p_, pts)) => ResponderCommand::ProvideIntersection(p_, pts.first().cloned().unwrap_or(p::Point::Origin), gen_tip(&mut cx.ch)),
                        Some(ResponderEvent::NextHeaderRequested(p_)) => {
                            if cx.ch.chance("app.rollback", 1, 4) { ResponderCommand::ProvideRollback(p_, gen_point(&mut cx.ch), gen_tip(&mut cx.ch)) } else { ResponderCommand::ProvideHeader(p_, gen_header(&mut cx.ch), gen_tip(&mut cx.ch)) }
                        }
                        Some(ResponderEvent::BlockRangeRequested(p_, _)) => ResponderCommand::ProvideBlocks(p_, (0..cx.ch.draw("app.blocks", 4)).map(|_| gen_blob(&mut cx.ch, 100)).collect()),
                        Some(ResponderEvent::PeersRequested(p_, k)) => ResponderCommand::ProvidePeers(p_, (0..(k as u64).min(3)).map(|_| gen_peer_addr(&mut cx.ch)).collect()),
                        Some(ResponderEvent::EbNotificationRequested(p_)) => ResponderCommand::ProvideEbOffer(p_, gen_point(&mut cx.ch), 9),
                        Some(ResponderEvent::EbRequested(p_, _)) => ResponderCommand::ProvideEb(p_, gen_anycbor(&mut cx.ch)),
                        Some(ResponderEvent::EbTxsRequested(p_, e, b)) => ResponderCommand::ProvideEbTxs(p_, e, b, vec![gen_anycbor(&mut cx.ch)]),
                        Some(_) => ResponderCommand::Housekeeping,
                        None => {
                            if cx.ch.chance("app.unasked", 1, 6) { ResponderCommand::ProvideHeader(id, gen_header(&mut cx.ch), gen_tip(&mut cx.ch)) } else { ResponderCommand::Housekeeping }
                        }
                    };
                    cx.tr.ev("cmd", &[]);
                    cx.st.inc("probe.app_commands");
                    beh.execute(cmd);
                }
                10 => {
                    match cx.ch.draw("conn.fault", 4) {
                        0 => {
                            cx.st.inc("fault.connection_reset");
                            cx.tr.ev("io.error", &[i as u64]);
                            beh.handle_io(InterfaceEvent::Error(id, InterfaceError::Other("reset".into())));
                        }
                        1 => {
                            cx.tr.ev("io.disconnected", &[i as u64]);
                            cl[i].up = false;
                            beh.handle_io(InterfaceEvent::Disconnected(id));
                        }
                        2 => beh.execute(ResponderCommand::BanPeer(id)),
                        _ => beh.execute(ResponderCommand::DisconnectPeer(id)),
                    }
                }
                _ => {
                    cx.tr.ev("io.idle", &[]);
                    beh.handle_io(InterfaceEvent::Idle);
                }
            }
        }
        let mut guard = 0;
        while let std::task::Poll::Ready(Some(_)) = beh.poll_next_unpin(&mut tcx) {
            guard += 1;
            if guard > 100_000 {
                return Err(Violation::new("liveness", "unbounded-output", "responder produced > 100000 outputs without input"));
            }
        }
        cx.st.progress = true;
        Ok(())
    }
}

pub fn def() -> CheckDef {
    CheckDef {
        prop: "C29",
        level: "exploration",
        batches: vec![
            batch(ByzInitiator, 30_000, 1_500_000, true),
            batch(AnyInitiator, 40_000, 2_000_000, true),
            batch(AnyResponder, 40_000, 2_000_000, true),
            batch(ByzResponder, 30_000, 1_500_000, true),
        ],
        rule: "histories of up to 300 events over 1..8 known and 2 unknown peers: (i) faithful connection model with Byzantine peers (any message of any protocol in any state, huge peer lists, numeric extremes), resets and connect failures - for the initiator against simulated responders, for the responder against simulated initiators whose requests the application answers with Provide* commands; (ii) unconstrained alphabet - any InterfaceEvent (Connected/Disconnected/Error/Recv/Sent/Idle) for any peer in any order interleaved with every command; oracle: no panic, output stream stays pollable and finite; non-trivial = completed history with a non-neutral choice; distinct = distinct event traces",
        real: vec!["InitiatorBehavior", "ResponderBehavior", "all sub-behaviours/visitors", "protocol::*::State::apply", "OutboundQueue"],
        stub: vec!["Interface (simulated)", "Manager (seeded loop)", "peers (Byzantine generators)"],
        assumptions: vec!["built with overflow checks on, so arithmetic overflow counts as a panic (as in the repository's own test profile)"],
        required: vec!["fault.arbitrary_inbound_message", "fault.byzantine_message", "fault.connection_reset", "probe.outputs", "probe.client_messages", "probe.app_commands"],
        env_nondeterminism: "event order, peer misbehaviour, connection faults, HashMap iteration order",
    }
}
