pub mod c24;
pub mod c41;

use crate::core::CheckDef;

pub fn lookup(id: &str) -> Option<CheckDef> {
    Some(match id {
        "C24" => c24::def(),
        "C41" => c41::def(),
        _ => return None,
    })
}

pub const ALL: &[&str] = &["C24", "C41"];
