pub mod c41;

use crate::core::CheckDef;

pub fn lookup(id: &str) -> Option<CheckDef> {
    Some(match id {
        "C41" => c41::def(),
        _ => return None,
    })
}

pub const ALL: &[&str] = &["C41"];
