pub mod c09;
pub mod c20;
pub mod c23;
pub mod c24;
pub mod c25;
pub mod c26;
pub mod c27;
pub mod c28;
pub mod c29;
pub mod c39;
pub mod c40;
pub mod c41;
pub mod kes;
pub mod c42;
pub mod c43;
pub mod wire;

use crate::core::CheckDef;

pub fn lookup(id: &str) -> Option<CheckDef> {
    Some(match id {
        "C09" => c09::def(),
        "C12" => kes::def_c12(),
        "C13" => kes::def_c13(),
        "C20" => c20::def(),
        "C21" => wire::def_c21(),
        "C22" => wire::def_c22(),
        "C23" => c23::def(),
        "C24" => c24::def(),
        "C25" => c25::def(),
        "C26" => c26::def(),
        "C27" => c27::def(),
        "C28" => c28::def(),
        "C29" => c29::def(),
        "C39" => c39::def(),
        "C40" => c40::def(),
        "C41" => c41::def(),
        "C42" => c42::def(),
        "C43" => c43::def(),
        _ => return None,
    })
}

pub const ALL: &[&str] = &["C09", "C12", "C13", "C20", "C21", "C22", "C23", "C24", "C25", "C26", "C27", "C28", "C29", "C39", "C40", "C41", "C42", "C43"];
