//! C40 — built transactions encode the staged content with a correct id.
//! Single-actor history simulation: seeded staging-operation histories (incl. serde restart of the
//! staging value) then build; a record model of the staged content is compared with what an
//! independent CBOR walker reads from the built bytes.

use crate::core::*;
use crate::spec::cbor::{self, Item, V};
use pallas_crypto::hash::{Hash, Hasher};
use pallas_primitives::Fragment;
use pallas_txbuilder::{BuildConway, ExUnits, Input, Output, ScriptKind, StagingTransaction};
use std::collections::{BTreeMap, BTreeSet};

#[derive(Clone, Debug, PartialEq)]
struct OutM {
    addr: Vec<u8>,
    coin: u64,
    assets: BTreeMap<(Vec<u8>, Vec<u8>), u64>,
    datum: Option<(bool, Vec<u8>)>, // (inline?, bytes)
    script: Option<(u8, Vec<u8>)>,
}

#[derive(Default)]
struct Model {
    inputs: Vec<([u8; 32], u64)>,
    ref_inputs: Vec<([u8; 32], u64)>,
    collateral: Vec<([u8; 32], u64)>,
    outputs: Vec<OutM>,
    collateral_out: Option<OutM>,
    fee: Option<u64>,
    mint: BTreeMap<(Vec<u8>, Vec<u8>), i64>,
    valid_from: Option<u64>,
    invalid_from: Option<u64>,
    network: Option<u8>,
    signers: Vec<[u8; 28]>,
    scripts: BTreeMap<Vec<u8>, (u8, Vec<u8>)>, // hash -> (kind, bytes)
    datums: BTreeMap<Vec<u8>, Vec<u8>>,        // hash -> bytes
    spend_rdmr: BTreeMap<([u8; 32], u64), (Vec<u8>, Option<(u64, u64)>)>,
    mint_rdmr: BTreeMap<Vec<u8>, (Vec<u8>, Option<(u64, u64)>)>,
    lang_views: bool,
    aux: Option<Vec<u8>>,
}

const DATA: [&[u8]; 6] = [&[0x00], &[0x18, 0x2a], &[0xd8, 0x79, 0x80], &[0x9f, 0x01, 0x02, 0xff], &[0x43, 1, 2, 3], &[0xa1, 0x01, 0x02]];
const AUX: [&[u8]; 2] = [&[0xa1, 0x01, 0x64, b't', b'e', b's', b't'], &[0xa1, 0x18, 0x2a, 0x01]];

fn kind_of(k: u8) -> ScriptKind {
    match k {
        0 => ScriptKind::Native,
        1 => ScriptKind::PlutusV1,
        2 => ScriptKind::PlutusV2,
        _ => ScriptKind::PlutusV3,
    }
}

fn native_script(tag: u8) -> Vec<u8> {
    // [0, keyhash28]
    let mut v = vec![0x82, 0x00, 0x58, 0x1c];
    v.extend([tag; 28]);
    v
}

fn gen_output(ch: &mut Choices) -> (Output, OutM) {
    let mut ab = vec![0x60 | (ch.draw("addr.net", 2) as u8)];
    ab.extend([ch.draw("addr.tag", 4) as u8; 28]);
    let addr = pallas_addresses::Address::from_bytes(&ab).unwrap();
    let coin = 1_000_000 + ch.draw("out.coin", 1000);
    let mut o = Output::new(addr, coin);
    let mut m = OutM { addr: ab, coin, assets: BTreeMap::new(), datum: None, script: None };
    for _ in 0..ch.draw("out.assets", 3) {
        let pol = [1 + ch.draw("policy", 3) as u8; 28];
        let name = vec![b'a' + ch.draw("asset.name", 3) as u8];
        let amt = 1 + ch.draw("out.asset.amount", 50);
        o = o.add_asset(Hash::from(pol), name.clone(), amt).unwrap();
        *m.assets.entry((pol.to_vec(), name)).or_insert(0) += amt;
    }
    match ch.draw("out.datum", 4) {
        1 => {
            let d = DATA[ch.draw("datum.idx", DATA.len() as u64) as usize].to_vec();
            o = o.set_inline_datum(d.clone());
            m.datum = Some((true, d));
        }
        2 => {
            let h = [ch.draw("datum.hash", 4) as u8; 32];
            o = o.set_datum_hash(Hash::from(h));
            m.datum = Some((false, h.to_vec()));
        }
        _ => {}
    }
    if ch.chance("out.script", 1, 5) {
        let k = ch.draw("out.script.kind", 4) as u8;
        let bytes = if k == 0 { native_script(ch.draw("ns.tag", 3) as u8) } else { vec![0x4d, 1, 0, 0, ch.draw("ps.tag", 3) as u8] };
        o = o.set_inline_script(kind_of(k), bytes.clone());
        m.script = Some((k, bytes));
    }
    (o, m)
}

fn inp(ch: &mut Choices) -> ([u8; 32], u64) {
    ([1 + ch.draw("in.hash", 3) as u8; 32], ch.draw("in.idx", 3))
}

// ---------------------------------------------------------------- reading the built bytes independently

fn as_input(it: &Item) -> Option<([u8; 32], u64)> {
    let a = it.arr()?;
    Some((a.first()?.bytes()?.as_slice().try_into().ok()?, a.get(1)?.uint()?))
}
fn input_set(it: Option<&Item>) -> Result<Vec<([u8; 32], u64)>, String> {
    let Some(it) = it else { return Ok(vec![]) };
    it.untag().arr().ok_or("input set is not an array")?.iter().map(|x| as_input(x).ok_or_else(|| "malformed input".to_string())).collect()
}
fn read_value(it: &Item) -> Result<(u64, BTreeMap<(Vec<u8>, Vec<u8>), i128>), String> {
    let num = |x: &Item| -> Option<i128> {
        match &x.v {
            V::U(n) => Some(*n as i128),
            V::N(n) => Some(-1 - *n as i128),
            _ => None,
        }
    };
    let assets = |m: &Item| -> Result<BTreeMap<(Vec<u8>, Vec<u8>), i128>, String> {
        let mut out = BTreeMap::new();
        for (p, names) in m.map().ok_or("multiasset is not a map")? {
            for (n, q) in names.map().ok_or("asset map is not a map")? {
                let k = (p.bytes().ok_or("policy")?.clone(), n.bytes().ok_or("asset name")?.clone());
                if out.insert(k, num(q).ok_or("amount")?).is_some() {
                    return Err("duplicate asset entry".into());
                }
            }
        }
        Ok(out)
    };
    match &it.v {
        V::U(n) => Ok((*n, BTreeMap::new())),
        V::A(xs) if xs.len() == 2 => Ok((xs[0].uint().ok_or("coin")?, assets(&xs[1])?)),
        V::M(_) => Ok((0, assets(it)?)),
        _ => Err("malformed value".into()),
    }
}
fn read_output(it: &Item, whole: &[u8]) -> Result<OutM, String> {
    let addr = it.map_get(0).and_then(|x| x.bytes()).ok_or("output address")?.clone();
    let (coin, assets) = read_value(it.map_get(1).ok_or("output value")?)?;
    let datum = match it.map_get(2) {
        None => None,
        Some(d) => {
            let a = d.arr().ok_or("datum option")?;
            match a[0].uint() {
                Some(0) => Some((false, a[1].bytes().ok_or("datum hash")?.clone())),
                Some(1) => Some((true, a[1].untag().bytes().ok_or("inline datum bytes")?.clone())),
                _ => return Err("datum option tag".into()),
            }
        }
    };
    let script = match it.map_get(3) {
        None => None,
        Some(s) => {
            let inner = s.untag().bytes().ok_or("script_ref wrapper")?;
            let si = cbor::parse_one(inner).map_err(|e| format!("script_ref: {e:?}"))?;
            let a = si.arr().ok_or("script_ref array")?;
            let k = a[0].uint().ok_or("script kind")? as u8;
            let bytes = if k == 0 { inner[a[1].start..a[1].end].to_vec() } else { a[1].bytes().ok_or("plutus script bytes")?.clone() };
            Some((k, bytes))
        }
    };
    let _ = whole;
    Ok(OutM { addr, coin, assets: assets.into_iter().map(|(k, v)| (k, v as u64)).collect(), datum, script })
}

pub struct Build;

impl Scenario for Build {
    fn name(&self) -> &'static str {
        "staging-history-then-build"
    }
    fn run(&self, cx: &mut RunCx) -> Result<(), Violation> {
        let mut st = StagingTransaction::new();
        let mut m = Model::default();
        let steps = cx.ch.range("steps", 0, 30);
        for _ in 0..steps {
            cx.st.steps += 1;
            let op = cx.ch.draw("op", 28);
            cx.tr.ev("op", &[op]);
            match op {
                0 | 1 | 2 => {
                    let i = inp(&mut cx.ch);
                    st = st.input(Input::new(Hash::from(i.0), i.1));
                    m.inputs.push(i);
                }
                3 => {
                    let i = inp(&mut cx.ch);
                    st = st.remove_input(Input::new(Hash::from(i.0), i.1));
                    m.inputs.retain(|x| *x != i);
                }
                4 => {
                    let i = inp(&mut cx.ch);
                    st = st.reference_input(Input::new(Hash::from(i.0), i.1));
                    m.ref_inputs.push(i);
                }
                5 => {
                    let i = inp(&mut cx.ch);
                    st = st.remove_reference_input(Input::new(Hash::from(i.0), i.1));
                    m.ref_inputs.retain(|x| *x != i);
                }
                6 | 7 => {
                    let (o, om) = gen_output(&mut cx.ch);
                    st = st.output(o);
                    m.outputs.push(om);
                }
                8 => {
                    if !m.outputs.is_empty() {
                        let i = cx.ch.draw("rm.out", m.outputs.len() as u64) as usize;
                        st = st.remove_output(i);
                        m.outputs.remove(i);
                    }
                }
                9 => {
                    let f = cx.ch.draw("fee", 1 << 32);
                    st = st.fee(f);
                    m.fee = Some(f);
                }
                10 => {
                    st = st.clear_fee();
                    m.fee = None;
                }
                11 | 12 => {
                    let pol = [1 + cx.ch.draw("policy", 3) as u8; 28];
                    let name = vec![b'a' + cx.ch.draw("asset.name", 3) as u8];
                    let amt = cx.ch.draw("mint.amount", 7) as i64 - 3; // -3..3, incl. 0 and cancelling pairs
                    st = st.mint_asset(Hash::from(pol), name.clone(), amt).unwrap();
                    *m.mint.entry((pol.to_vec(), name)).or_insert(0) += amt;
                    cx.st.inc("probe.mint_ops");
                }
                13 => {
                    let pol = [1 + cx.ch.draw("policy", 3) as u8; 28];
                    let name = vec![b'a' + cx.ch.draw("asset.name", 3) as u8];
                    st = st.remove_mint_asset(Hash::from(pol), name.clone());
                    m.mint.remove(&(pol.to_vec(), name));
                }
                14 => {
                    let v = cx.ch.draw("slot", 1 << 40);
                    if cx.ch.chance("slot.which", 1, 2) {
                        st = st.valid_from_slot(v);
                        m.valid_from = Some(v);
                    } else {
                        st = st.invalid_from_slot(v);
                        m.invalid_from = Some(v);
                    }
                }
                15 => {
                    if cx.ch.chance("slot.which", 1, 2) {
                        st = st.clear_valid_from_slot();
                        m.valid_from = None;
                    } else {
                        st = st.clear_invalid_from_slot();
                        m.invalid_from = None;
                    }
                }
                16 => {
                    let n = cx.ch.draw("network", 3) as u8; // 2 is invalid: the builder must refuse, not panic
                    st = st.network_id(n);
                    m.network = Some(n);
                }
                17 => {
                    let i = inp(&mut cx.ch);
                    if cx.ch.chance("coll.remove", 1, 4) {
                        st = st.remove_collateral_input(Input::new(Hash::from(i.0), i.1));
                        m.collateral.retain(|x| *x != i);
                    } else {
                        st = st.collateral_input(Input::new(Hash::from(i.0), i.1));
                        m.collateral.push(i);
                    }
                }
                18 => {
                    if cx.ch.chance("collout.clear", 1, 3) {
                        st = st.clear_collateral_output();
                        m.collateral_out = None;
                    } else {
                        let (o, om) = gen_output(&mut cx.ch);
                        st = st.collateral_output(o);
                        m.collateral_out = Some(om);
                    }
                }
                19 => {
                    let h = [1 + cx.ch.draw("signer", 3) as u8; 28];
                    if cx.ch.chance("signer.remove", 1, 4) {
                        st = st.remove_disclosed_signer(Hash::from(h));
                        m.signers.retain(|x| *x != h);
                    } else {
                        st = st.disclosed_signer(Hash::from(h));
                        m.signers.push(h);
                    }
                }
                20 => {
                    let k = cx.ch.draw("script.kind", 4) as u8;
                    let bytes = if k == 0 { native_script(cx.ch.draw("ns.tag", 3) as u8) } else { vec![0x4d, 1, 0, 0, cx.ch.draw("ps.tag", 3) as u8] };
                    let hash = Hasher::<224>::hash_tagged(&bytes, k).to_vec();
                    if cx.ch.chance("script.remove", 1, 4) {
                        st = st.remove_script_by_hash(Hash::from(<[u8; 28]>::try_from(hash.as_slice()).unwrap()));
                        m.scripts.remove(&hash);
                    } else {
                        st = st.script(kind_of(k), bytes.clone());
                        m.scripts.insert(hash, (k, bytes));
                    }
                }
                21 => {
                    let d = DATA[cx.ch.draw("datum.idx", DATA.len() as u64) as usize].to_vec();
                    let hash = Hasher::<256>::hash_cbor(&d).to_vec();
                    match cx.ch.draw("datum.op", 4) {
                        0 => {
                            st = st.remove_datum(d);
                            m.datums.remove(&hash);
                        }
                        1 => {
                            st = st.remove_datum_by_hash(Hash::from(<[u8; 32]>::try_from(hash.as_slice()).unwrap()));
                            m.datums.remove(&hash);
                        }
                        _ => {
                            st = st.datum(d.clone());
                            m.datums.insert(hash, d);
                        }
                    }
                }
                22 | 23 => {
                    let i = inp(&mut cx.ch);
                    let d = DATA[cx.ch.draw("rdmr.data", DATA.len() as u64) as usize].to_vec();
                    let ex = if cx.ch.chance("rdmr.no_exunits", 1, 10) { None } else { Some((cx.ch.draw("ex.mem", 1000), cx.ch.draw("ex.steps", 1000))) };
                    if cx.ch.chance("rdmr.remove", 1, 4) {
                        st = st.remove_spend_redeemer(Input::new(Hash::from(i.0), i.1));
                        m.spend_rdmr.remove(&i);
                    } else {
                        st = st.add_spend_redeemer(Input::new(Hash::from(i.0), i.1), d.clone(), ex.map(|(a, b)| ExUnits { mem: a, steps: b }));
                        m.spend_rdmr.insert(i, (d, ex));
                        cx.st.inc("probe.spend_redeemers_staged");
                    }
                }
                24 => {
                    let pol = [1 + cx.ch.draw("policy", 3) as u8; 28];
                    let d = DATA[cx.ch.draw("rdmr.data", DATA.len() as u64) as usize].to_vec();
                    if cx.ch.chance("rdmr.remove", 1, 4) {
                        st = st.remove_mint_redeemer(Hash::from(pol));
                        m.mint_rdmr.remove(&pol.to_vec());
                    } else {
                        let ex = (cx.ch.draw("ex.mem", 1000), cx.ch.draw("ex.steps", 1000));
                        st = st.add_mint_redeemer(Hash::from(pol), d.clone(), Some(ExUnits { mem: ex.0, steps: ex.1 }));
                        m.mint_rdmr.insert(pol.to_vec(), (d, Some(ex)));
                    }
                }
                25 => {
                    st = st.add_language(kind_of(1 + cx.ch.draw("lang", 3) as u8), vec![1, 2, 3]);
                    m.lang_views = true;
                }
                26 => {
                    if cx.ch.chance("aux.clear", 1, 3) {
                        st = st.clear_auxiliary_data();
                        m.aux = None;
                    } else {
                        let a = AUX[cx.ch.draw("aux.idx", AUX.len() as u64) as usize].to_vec();
                        st = st.add_auxiliary_data(a.clone());
                        m.aux = Some(a);
                    }
                }
                _ => {
                    // Restart: the staging document is persisted and reloaded
                    cx.st.inc("fault.restart_serde_roundtrip");
                    let s = serde_json::to_string(&st).map_err(|e| Violation::new("model", "restart.serialize", e.to_string()))?;
                    let back: StagingTransaction = match serde_json::from_str(&s) {
                        Ok(x) => x,
                        Err(e) => return cx.report(Violation::new("model", "restart.deserialize", format!("staging document does not reload: {e}"))),
                    };
                    if back != st {
                        cx.report(Violation::new("model", "restart.differs", "serde round-trip changed the staging transaction"))?;
                    }
                    st = back;
                }
            }
        }
        // ---- build: never panics
        let built = match std::panic::catch_unwind(std::panic::AssertUnwindSafe(|| st.build_conway_raw())) {
            Ok(r) => r,
            Err(_) => {
                let (f, msg) = take_panic().unwrap_or_default();
                let v = panic_violation(&f, &msg);
                // which staged content triggers it (for the message only)
                let zero_mint = m.mint.values().any(|x| *x == 0);
                let no_ex = m.spend_rdmr.values().any(|x| x.1.is_none());
                return cx.report(Violation::new("build_panic", v.disc.clone(), format!("{} (staged: zero-sum mint entry {zero_mint}, redeemer without ex-units {no_ex})", v.message)));
            }
        };
        cx.st.progress = true;
        let Ok(tx) = built else {
            cx.st.inc("probe.build_refused");
            return Ok(());
        };
        cx.st.inc("probe.build_accepted");
        let bytes = &tx.tx_bytes.0;
        let fail = |what: &str, msg: String| Violation::new("content", what.to_string(), msg);
        // decodes as a Conway transaction (real decoder) and as one well-formed item (independent walker)
        if pallas_primitives::conway::Tx::decode_fragment(bytes).is_err() {
            return cx.report(fail("does-not-decode", "built bytes do not decode as a Conway transaction".into()));
        }
        let root = match cbor::parse_one(bytes) {
            Ok(x) => x,
            Err(e) => return cx.report(fail("not-wellformed", format!("{e:?}"))),
        };
        let parts = root.arr().ok_or_else(|| fail("shape", "tx is not an array".into()))?;
        let body = &parts[0];
        let wits = &parts[1];
        // id = blake2b-256 of the body bytes inside the built bytes
        let id = Hasher::<256>::hash(&bytes[body.start..body.end]);
        if *id != tx.tx_hash.0 {
            cx.report(fail("id", format!("tx_hash {} != blake2b256(body) {}", hex::encode(tx.tx_hash.0), hex::encode(*id))))?;
        }
        let set = |v: &[([u8; 32], u64)]| v.iter().cloned().collect::<BTreeSet<_>>();
        let check_inputs = |key: u64, want: &[([u8; 32], u64)], name: &str| -> Result<bool, Violation> {
            let got = input_set(body.map_get(key)).map_err(|e| fail(name, e))?;
            if set(&got) != set(want) {
                return Err(fail(name, format!("{name}: built {:?}, staged {:?}", set(&got).len(), set(want).len())));
            }
            // duplicates inside the built set are not judged by themselves (the statement compares the
            // content); their consequence for redeemer pointers is judged below
            Ok(got.len() != set(&got).len())
        };
        for (key, want, name) in [(0u64, &m.inputs, "inputs"), (13, &m.collateral, "collateral"), (18, &m.ref_inputs, "reference-inputs")] {
            match check_inputs(key, want, name) {
                Ok(true) => cx.st.inc("probe.duplicate_entries_in_built_set"),
                Ok(false) => {}
                Err(v) => cx.report(v)?,
            }
        }
        // outputs, in order
        let outs = body.map_get(1).and_then(|x| x.arr()).ok_or_else(|| fail("outputs", "no outputs array".into()))?;
        let got_outs: Result<Vec<OutM>, String> = outs.iter().map(|o| read_output(o, bytes)).collect();
        match got_outs {
            Ok(g) if g == m.outputs => {}
            Ok(g) => cx.report(fail("outputs", format!("built outputs {:?}\nstaged {:?}", g, m.outputs)))?,
            Err(e) => cx.report(fail("outputs", e))?,
        }
        let got_cr = body.map_get(16).map(|o| read_output(o, bytes)).transpose().map_err(|e| fail("collateral-return", e))?;
        if got_cr != m.collateral_out {
            cx.report(fail("collateral-return", format!("built {:?} staged {:?}", got_cr, m.collateral_out)))?;
        }
        let u = |k: u64| body.map_get(k).and_then(|x| x.uint());
        if u(2) != Some(m.fee.unwrap_or(0)) {
            cx.report(fail("fee", format!("built {:?} staged {:?}", u(2), m.fee)))?;
        }
        if u(3) != m.invalid_from || u(8) != m.valid_from {
            cx.report(fail("validity", format!("built ttl {:?} start {:?}; staged {:?} {:?}", u(3), u(8), m.invalid_from, m.valid_from)))?;
        }
        if u(15) != m.network.map(|x| x as u64) {
            cx.report(fail("network-id", format!("built {:?} staged {:?}", u(15), m.network)))?;
        }
        // mint
        let got_mint = match body.map_get(9) {
            Some(x) => read_value(x).map_err(|e| fail("mint", e))?.1,
            None => BTreeMap::new(),
        };
        let want_mint: BTreeMap<(Vec<u8>, Vec<u8>), i128> = m.mint.iter().filter(|(_, v)| **v != 0).map(|(k, v)| (k.clone(), *v as i128)).collect();
        if got_mint != want_mint {
            cx.report(fail("mint", format!("built {:?} staged {:?}", got_mint, want_mint)))?;
        }
        // required signers
        let got_signers: BTreeSet<Vec<u8>> = body.map_get(14).map(|x| x.untag().arr().map(|a| a.iter().filter_map(|i| i.bytes().cloned()).collect()).unwrap_or_default()).unwrap_or_default();
        let want_signers: BTreeSet<Vec<u8>> = m.signers.iter().map(|x| x.to_vec()).collect();
        if got_signers != want_signers {
            cx.report(fail("signers", format!("built {} staged {}", got_signers.len(), want_signers.len())))?;
        }
        // datums (witness key 4): the staged bytes
        let got_datums: BTreeSet<Vec<u8>> = wits.map_get(4).map(|x| x.untag().arr().map(|a| a.iter().map(|i| bytes[i.start..i.end].to_vec()).collect()).unwrap_or_default()).unwrap_or_default();
        let want_datums: BTreeSet<Vec<u8>> = m.datums.values().cloned().collect();
        if got_datums != want_datums {
            cx.report(fail("datums", format!("built {:?} staged {:?}", got_datums.iter().map(hex::encode).collect::<Vec<_>>(), want_datums.iter().map(hex::encode).collect::<Vec<_>>())))?;
        }
        // scripts by language (witness keys 1, 3, 6, 7)
        for (key, k) in [(1u64, 0u8), (3, 1), (6, 2), (7, 3)] {
            let got: BTreeSet<Vec<u8>> = wits
                .map_get(key)
                .map(|x| x.untag().arr().map(|a| a.iter().map(|i| if k == 0 { bytes[i.start..i.end].to_vec() } else { i.bytes().cloned().unwrap_or_default() }).collect()).unwrap_or_default())
                .unwrap_or_default();
            let want: BTreeSet<Vec<u8>> = m.scripts.values().filter(|s| s.0 == k).map(|s| s.1.clone()).collect();
            if got != want {
                cx.report(fail("scripts", format!("language {k}: built {} staged {}", got.len(), want.len())))?;
            }
        }
        // auxiliary data
        let got_aux = match &parts[3].v {
            V::Simple(22) => None,
            _ => Some(bytes[parts[3].start..parts[3].end].to_vec()),
        };
        if got_aux != m.aux {
            cx.report(fail("aux-data", format!("built {:?} staged {:?}", got_aux.map(hex::encode), m.aux.as_ref().map(hex::encode))))?;
        }
        // redeemers: index = position of the target in the ledger's canonical (sorted, duplicate-free) order
        let canon_inputs: Vec<([u8; 32], u64)> = set(&m.inputs).into_iter().collect();
        let canon_policies: Vec<Vec<u8>> = m.mint.iter().filter(|(_, v)| **v != 0).map(|(k, _)| k.0.clone()).collect::<BTreeSet<_>>().into_iter().collect();
        let mut want_rdmr: BTreeSet<(u64, u64, Vec<u8>)> = BTreeSet::new();
        for (i, (d, _)) in &m.spend_rdmr {
            if let Some(pos) = canon_inputs.iter().position(|x| x == i) {
                want_rdmr.insert((0, pos as u64, d.clone()));
            }
        }
        for (p, (d, _)) in &m.mint_rdmr {
            if let Some(pos) = canon_policies.iter().position(|x| x == p) {
                want_rdmr.insert((1, pos as u64, d.clone()));
            }
        }
        let mut got_rdmr: BTreeSet<(u64, u64, Vec<u8>)> = BTreeSet::new();
        if let Some(r) = wits.map_get(5) {
            for e in r.untag().arr().ok_or_else(|| fail("redeemers", "not a list".into()))? {
                let a = e.arr().ok_or_else(|| fail("redeemers", "entry".into()))?;
                got_rdmr.insert((a[0].uint().unwrap_or(99), a[1].uint().unwrap_or(u64::MAX), bytes[a[2].start..a[2].end].to_vec()));
            }
        }
        if got_rdmr != want_rdmr {
            cx.st.inc("probe.redeemer_mismatch");
            cx.report(fail("redeemer-pointers", format!("built {:?}\nexpected {:?} (canonical inputs {:?})", got_rdmr, want_rdmr, canon_inputs.iter().map(|x| (x.0[0], x.1)).collect::<Vec<_>>())))?;
        } else if !want_rdmr.is_empty() {
            cx.st.inc("probe.redeemer_pointers_checked");
        }
        Ok(())
    }
}

pub fn def() -> CheckDef {
    CheckDef {
        prop: "C40",
        level: "exploration",
        batches: vec![batch(Build, 60_000, 3_000_000, false)],
        rule: "seeded histories of 0..30 staging operations (add/remove inputs, reference and collateral inputs with duplicates, outputs with assets / datums / script refs, remove output, fee, mint and burn incl. zero and cancelling amounts, validity bounds, network id incl. an invalid one, collateral return, signers, scripts of 4 languages, datums, spend/mint redeemers for targets present, absent, added later or removed, language views, auxiliary data, serde restart of the staging document) followed by build_conway_raw; a record model of the staged content is compared with what an independent CBOR walker reads from the built bytes (every listed field, id = blake2b-256 of the body byte range, redeemer index = position in the sorted duplicate-free target set); builds the builder refuses are not judged; non-trivial = run with a non-neutral choice; distinct = distinct op traces",
        real: vec!["pallas_txbuilder::StagingTransaction (all staging methods, serde impls)", "BuildConway::build_conway_raw, Output::build_babbage_raw", "conway::Tx decode (acceptance check only)"],
        stub: vec![],
        assumptions: vec!["remove_output is only called with an index in range (an out-of-range index panics in the staging method, which the statement does not cover)", "staged datum / redeemer payloads are valid PlutusData encodings so that the builder accepts", "single actor; the only injected event is persist-and-reload of the staging document"],
        required: vec!["probe.build_accepted", "probe.build_refused", "probe.redeemer_pointers_checked", "probe.mint_ops", "fault.restart_serde_roundtrip"],
        env_nondeterminism: "none (single-actor history simulation); HashMap iteration order inside the builder is seeded through the getrandom shim",
    }
}
