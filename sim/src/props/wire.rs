//! C21 (reassembly independent of segment boundaries) and C22 (messages are single
//! well-formed CBOR items and round-trip) — shared "message zoo over the wire" scenarios
//! for both networking stacks.

use crate::core::*;
use crate::engines::net1::msgs::*;
use crate::engines::net1::*;
use crate::engines::p2p::adapter as a2;
use crate::spec::cbor;
use pallas_network::multiplexer::{ChannelBuffer, Plexer};
use pallas_network2::behavior::AnyMessage;
use pallas_network2::Message as _;
use std::collections::HashMap;
use tokio::io::AsyncWriteExt;

#[derive(Clone, Copy, PartialEq)]
pub enum Mode {
    /// the real muxer cuts the stream (C22: zoo through the real encoders/decoders)
    Mux,
    /// a simulated sender cuts the concatenated encodings at seeded points (C21)
    Cuts,
}

pub struct Wire1 {
    pub name: &'static str,
    pub mode: Mode,
    pub prop: &'static str,
}
pub struct Wire2 {
    pub name: &'static str,
    pub mode: Mode,
    pub prop: &'static str,
    /// the bearer is a kernel Unix socketpair (the `Bearer::Unix` arms of network2 run)
    pub kernel: bool,
}

fn strict(prop: &str, what: &str, bytes: &[u8]) -> Result<(), Violation> {
    if prop == "C22" {
        if let Err(e) = cbor::parse_one(bytes) {
            return Err(Violation::new("not_single_wellformed_item", what.to_string(), format!("{what}: encoding is not exactly one well-formed CBOR item: {e:?} ({} bytes: {})", bytes.len(), hex::encode(&bytes[..bytes.len().min(48)]))));
        }
    }
    Ok(())
}

/// seeded cut positions (sorted, strictly inside 0..n) for a stream of n bytes with the given message boundaries
fn cuts(ch: &mut Choices, n: usize, boundaries: &[usize]) -> Vec<usize> {
    if n <= 1 {
        return vec![];
    }
    let mut c: Vec<usize> = if n <= 12 {
        let mask = ch.draw("cuts.mask", 1u64 << (n - 1));
        (1..n).filter(|i| mask >> (i - 1) & 1 == 1).collect()
    } else {
        // dense styles only for streams up to 1500 bytes (recv_full_msg re-decodes the whole buffer per
        // chunk, so n one-byte segments cost O(n^2)); longer streams get sparse cut sets
        let style = if n > 1500 { *ch.pick("cuts.style.long", &[1u64, 2, 3, 5]) } else { ch.draw("cuts.style", 6) };
        match style {
            0 => (1..n).collect(), // all 1-byte segments
            1 => vec![1 + ch.draw("cuts.one", n as u64 - 1) as usize],
            2 => boundaries.iter().copied().filter(|b| *b > 0 && *b < n).collect(),
            3 => {
                // just before / after a message boundary
                let mut v = vec![];
                for b in boundaries {
                    for d in [-1i64, 1] {
                        let x = *b as i64 + d;
                        if x > 0 && (x as usize) < n && ch.chance("cuts.near", 1, 2) {
                            v.push(x as usize);
                        }
                    }
                }
                v
            }
            4 => (1..n).filter(|_| ch.chance("cuts.dense", 1, 3)).collect(),
            _ => {
                let k = 1 + ch.draw("cuts.k", 8);
                (0..k).map(|_| 1 + ch.draw("cuts.pos", n as u64 - 1) as usize).collect()
            }
        }
    };
    // no fragment may exceed the segment maximum
    let mut last = 0;
    let mut extra = vec![];
    c.sort();
    c.dedup();
    for x in c.iter().copied().chain(std::iter::once(n)) {
        while x - last > 65535 {
            last += 65535;
            extra.push(last);
        }
        last = x;
    }
    c.extend(extra);
    c.sort();
    c.dedup();
    c
}

fn fragments(bytes: &[u8], cuts: &[usize]) -> Vec<Vec<u8>> {
    let mut out = vec![];
    let mut last = 0;
    for c in cuts.iter().copied().chain(std::iter::once(bytes.len())) {
        out.push(bytes[last..c].to_vec());
        last = c;
    }
    out
}

fn segment(proto: u16, ts: u32, payload: &[u8]) -> Vec<u8> {
    assert!(payload.len() <= 65535, "harness: segment payload above the 16-bit length field");
    let mut v = Vec::with_capacity(8 + payload.len());
    v.extend(ts.to_be_bytes());
    v.extend(proto.to_be_bytes());
    v.extend((payload.len() as u16).to_be_bytes());
    v.extend(payload);
    v
}

fn pipe_cfg(ch: &mut Choices) -> PipeCfg {
    PipeCfg {
        stall: (ch.draw("cfg.stall", 3), 8),
        short: (ch.draw("cfg.short", 4), 4),
        delay: (ch.draw("cfg.delay", 2), 16),
        capacity: *ch.pick("cfg.capacity", &[1usize << 20, 70_000, 4096, 17]),
        ..Default::default()
    }
}

impl Scenario for Wire1 {
    fn name(&self) -> &'static str {
        self.name
    }
    fn run(&self, cx: &mut RunCx) -> Result<(), Violation> {
        let prop = self.prop;
        // ---- plan: protocols with distinct wire ids, a message sequence each
        let np = cx.ch.range("protocols", 1, 3) as usize;
        let mut protos: Vec<usize> = vec![];
        let mut tries = 0;
        while protos.len() < np && tries < 20 {
            tries += 1;
            let p = cx.ch.draw("proto", N1 as u64) as usize;
            if protos.iter().all(|q| WIRE_ID[*q] != WIRE_ID[p]) {
                protos.push(p);
            }
        }
        let mut plan: Vec<(usize, Vec<M1>, Vec<Vec<u8>>)> = vec![];
        for p in &protos {
            let n = cx.ch.range("msgs", 1, 8);
            let mut ms = vec![];
            let mut encs = vec![];
            for _ in 0..n {
                let k = cx.ch.draw("kind", SPECS1[*p].msgs.len() as u64) as u8;
                let m = gen1(*p, k, &mut cx.ch);
                let what = format!("{}:{}", NAMES1[*p], SPECS1[*p].mname(k));
                cx.st.inc(&format!("variant.s1.{}.{}", NAMES1[*p], k));
                if prop != "C22" {
                    // C21 judges reassembly only: values whose own encoding does not survive a direct
                    // decode (C22's business) are left out of the stream
                    let ok = std::panic::catch_unwind(std::panic::AssertUnwindSafe(|| m.encode().ok().and_then(|b| M1::decode(*p, &b).ok().map(|x| x.render() == m.render())))).ok().flatten().unwrap_or(false);
                    let _ = take_panic();
                    if !ok {
                        cx.st.inc("probe.skipped_not_roundtrippable");
                        continue;
                    }
                }
                let enc = match std::panic::catch_unwind(std::panic::AssertUnwindSafe(|| m.encode())) {
                    Ok(Ok(b)) => b,
                    Ok(Err(e)) => {
                        cx.report(Violation::new("encode_failed", what.clone(), format!("{what}: encode error {e}: {}", m.render())))?;
                        continue;
                    }
                    Err(_) => {
                        let (f, pm) = take_panic().unwrap_or_default();
                        cx.report(Violation::new("encode_panic", what.clone(), format!("{what}: encoder panicked at {f}: {pm}")))?;
                        continue;
                    }
                };
                if let Err(v) = strict(prop, &what, &enc) {
                    cx.report(v)?;
                    continue;
                }
                // direct round trip through the real decoder
                match M1::decode(*p, &enc) {
                    Ok(back) if back.render() == m.render() => {}
                    Ok(back) => {
                        cx.report(Violation::new("roundtrip_differs", what.clone(), format!("{what}: sent {} decoded {}", m.render(), back.render())))?;
                        continue;
                    }
                    Err(e) => {
                        cx.report(Violation::new("roundtrip_decode_failed", what.clone(), format!("{what}: own encoding does not decode: {e}; {}", m.render())))?;
                        continue;
                    }
                }
                ms.push(m);
                encs.push(enc);
            }
            // sentinel: a last message whose arrival shows nothing was left over
            let s = gen1(*p, 0, &mut cx.ch);
            encs.push(s.encode().map_err(|e| Violation::new("setup", "sentinel", e))?);
            ms.push(s);
            plan.push((*p, ms, encs));
        }
        let pcfg = pipe_cfg(&mut cx.ch);
        let mode = self.mode;
        // cut plan (mode Cuts): per protocol fragments, then a seeded interleaving
        let mut frag_order: Vec<(u16, Vec<u8>)> = vec![];
        if mode == Mode::Cuts {
            let mut per: Vec<(u16, std::collections::VecDeque<Vec<u8>>)> = vec![];
            for (p, _ms, encs) in &plan {
                let body: Vec<u8> = encs[..encs.len() - 1].concat();
                let mut bounds = vec![];
                let mut acc = 0;
                for e in &encs[..encs.len() - 1] {
                    acc += e.len();
                    bounds.push(acc);
                }
                let cs = cuts(&mut cx.ch, body.len(), &bounds);
                cx.st.add("probe.cut_points", cs.len() as u64);
                // a split is a partition into non-empty segments (zero-length segments are not generated:
                // the statement speaks of splits of the encoding, and no muxer emits them)
                let mut fr: std::collections::VecDeque<Vec<u8>> = fragments(&body, &cs).into_iter().filter(|f| !f.is_empty()).collect();
                // the sentinel goes last, in one piece or two
                let sent = encs.last().unwrap();
                if sent.len() > 1 && cx.ch.chance("sentinel.split", 1, 2) {
                    fr.push_back(sent[..1].to_vec());
                    fr.extend(sent[1..].chunks(65535).map(|c| c.to_vec()));
                } else {
                    fr.extend(sent.chunks(65535).map(|c| c.to_vec()));
                }
                per.push((WIRE_ID[*p], fr));
            }
            while per.iter().any(|x| !x.1.is_empty()) {
                let live: Vec<usize> = (0..per.len()).filter(|i| !per[*i].1.is_empty()).collect();
                let i = live[cx.ch.draw("interleave", live.len() as u64) as usize];
                let f = per[i].1.pop_front().unwrap();
                frag_order.push((per[i].0, f));
            }
            if plan.len() > 1 {
                cx.st.inc("probe.interleaved_protocols");
            }
        }
        let total_msgs: usize = plan.iter().map(|x| x.1.len()).sum();
        cx.tr.ev("plan", &[plan.len() as u64, total_msgs as u64, frag_order.len() as u64]);
        let wants: Vec<Vec<String>> = plan.iter().map(|x| x.1.iter().map(|m| m.render()).collect()).collect();
        let send_msgs: Vec<Vec<M1>> = plan.iter_mut().map(|x| std::mem::take(&mut x.1)).collect();
        let total_msgs2 = total_msgs;
        let _ = total_msgs2;

        run_sim(cx, |sh| async move {
            let (wa, rb) = pipe("a2b", &sh, &pcfg);
            let (wb, ra) = pipe("b2a", &sh, &pcfg);
            let mut pb = Plexer::new(bearer1(rb, wb));
            let mut recv_bufs: Vec<Option<ChannelBuffer>> = plan.iter().map(|(p, _, _)| Some(ChannelBuffer::new(pb.subscribe_server(WIRE_ID[*p])))).collect();
            let rpb = pb.spawn();
            let mut sender_handles = vec![];
            let mut rpa = None;
            let mut keep_alive_bearer = None;
            if mode == Mode::Mux {
                let mut pa = Plexer::new(bearer1(ra, wa));
                let bufs: Vec<ChannelBuffer> = plan.iter().map(|(p, _, _)| ChannelBuffer::new(pa.subscribe_client(WIRE_ID[*p]))).collect();
                rpa = Some(pa.spawn());
                for (mut b, ms) in bufs.into_iter().zip(send_msgs.into_iter()) {
                    let sh2 = sh.clone();
                    sender_handles.push(tokio::spawn(chaos_auto(
                        async move {
                            for m in &ms {
                                send1(&mut b, m).await.map_err(|e| Violation::new("wire", "send-failed", e.to_string()))?;
                                pause(&sh2, "send.pause", 1, 4).await;
                            }
                            // keep the channel alive until the receivers are done
                            std::future::pending::<()>().await; // the writing end stays open until the run ends (the task is aborted then)
                            drop(b);
                            Ok::<(), Violation>(())
                        },
                        &sh,
                        (1, 8),
                    )));
                }
            } else {
                let mut w = wa;
                let sh2 = sh.clone();
                let frags = frag_order.clone();
                keep_alive_bearer = Some(ra);
                sender_handles.push(tokio::spawn(async move {
                    for (i, (id, f)) in frags.iter().enumerate() {
                        let seg = segment(*id, i as u32, f);
                        w.write_all(&seg).await.map_err(|e| Violation::new("wire", "raw-write-failed", e.to_string()))?;
                        pause(&sh2, "send.pause", 1, 4).await;
                    }
                    std::future::pending::<()>().await; // the writing end stays open until the run ends (the task is aborted then)
                    drop(w);
                    Ok::<(), Violation>(())
                }));
            }
            // receivers
            let mut result: Result<(), Violation> = Ok(());
            let mut rhandles = vec![];
            for (i, (p, ms, _)) in plan.iter().enumerate() {
                let mut b = recv_bufs[i].take().unwrap();
                let p = *p;
                let _ = ms;
                let want: Vec<String> = wants[i].clone();
                let sh2 = sh.clone();
                rhandles.push(tokio::spawn(chaos_auto(
                    async move {
                        for (j, w) in want.iter().enumerate() {
                            // the caller may give up waiting (a time-out, a select! branch) and ask again: a
                            // pending recv_full_msg is dropped at a seeded moment - possibly between two
                            // segments of one message - and called anew
                            let got = loop {
                                let tmo = if chance(&sh2, "recv.cancel", 1, 3) { Some(1 + draw(&sh2, "recv.cancel.us", 8_000)) } else { None };
                                match tmo {
                                    Some(us) => match tokio::time::timeout(std::time::Duration::from_micros(us), recv1(p, &mut b)).await {
                                        Ok(r) => break r,
                                        Err(_) => {
                                            inc(&sh2, "fault.recv_future_cancelled");
                                            continue;
                                        }
                                    },
                                    None => break recv1(p, &mut b).await,
                                }
                            }
                            .map_err(|e| {
                                Violation::new("wire", format!("{}:recv-error", NAMES1[p]), format!("{}: message #{j} of {}: recv_full_msg failed: {e}", NAMES1[p], want.len()))
                            })?;
                            if &got.render() != w {
                                return Err(Violation::new("wire", format!("{}:message-differs", NAMES1[p]), format!("{}: message #{j}: got {} want {}", NAMES1[p], got.render(), w)));
                            }
                            ev(&sh2, "got", &[p as u64, j as u64]);
                        }
                        // hand the channel back: dropping it while segments of this protocol may
                        // still arrive (empty fragments) would take the whole demuxer down
                        Ok(b)
                    },
                    &sh,
                    (1, 8),
                )));
            }
            let mut keep = vec![];
            for h in rhandles {
                match h.await {
                    Ok(Ok(b)) => keep.push(b),
                    Ok(Err(v)) => {
                        // a failed receiver drops its channel, which takes the demuxer (and thereby the other
                        // receivers) down: prefer the primary failure over such collateral dequeue errors
                        let collateral = |x: &Violation| x.message.contains("agent failed to dequeue chunk");
                        match &result {
                            Ok(()) => result = Err(v),
                            Err(old) if collateral(old) && !collateral(&v) => result = Err(v),
                            _ => {}
                        }
                    }
                    Err(e) if e.is_panic() => {
                        let (f, m) = take_panic().unwrap_or_default();
                        if result.is_ok() {
                            result = Err(panic_violation(&f, &m));
                        }
                    }
                    Err(_) => {}
                }
            }
            for h in sender_handles {
                h.abort();
            }
            rpb.abort().await;
            if let Some(r) = rpa {
                r.abort().await;
            }
            drop(keep_alive_bearer);
            let mut s = sh.lock().unwrap();
            s.st.progress = true;
            s.st.add("probe.messages_delivered", total_msgs as u64);
            result
        })
    }
}

impl Scenario for Wire2 {
    fn name(&self) -> &'static str {
        self.name
    }
    fn run(&self, cx: &mut RunCx) -> Result<(), Violation> {
        let prop = self.prop;
        let np = cx.ch.range("protocols", 1, 3) as usize;
        let mut protos: Vec<usize> = vec![];
        while protos.len() < np {
            let p = cx.ch.draw("proto", a2::NPROTO as u64) as usize;
            if !protos.contains(&p) {
                protos.push(p);
            }
        }
        // per protocol: messages + encodings (+ sentinel)
        let mut plan: Vec<(usize, Vec<AnyMessage>, Vec<Vec<u8>>)> = vec![];
        for p in &protos {
            let n = cx.ch.range("msgs", 1, 8);
            let mut ms = vec![];
            let mut encs = vec![];
            for i in 0..=n {
                let k = if i == n { 0 } else { cx.ch.draw("kind", a2::SPECS[*p].msgs.len() as u64) as u8 };
                let m = a2::gen_msg(*p, k, &mut cx.ch);
                let what = format!("net2-{}:{}", a2::SPECS[*p].name, a2::SPECS[*p].mname(k));
                let enc = match std::panic::catch_unwind(std::panic::AssertUnwindSafe(|| m.payload())) {
                    Ok(b) => b,
                    Err(_) => {
                        let (f, pm) = take_panic().unwrap_or_default();
                        cx.report(Violation::new("encode_panic", what.clone(), format!("{what}: encoder panicked at {f}: {pm}; {:?}", m)))?;
                        continue;
                    }
                };
                if let Err(v) = strict(prop, &what, &enc) {
                    cx.report(v)?;
                    continue;
                }
                let mut copy = enc.clone();
                match AnyMessage::from_payload(m.channel(), &mut copy) {
                    Some(back) if a2::render2(&back) == a2::render2(&m) && copy.is_empty() => {}
                    Some(back) => {
                        cx.report(Violation::new("roundtrip_differs", what.clone(), format!("{what}: sent {:?} decoded {:?} leftover {}", m, back, copy.len())))?;
                        continue;
                    }
                    None => {
                        cx.report(Violation::new("roundtrip_decode_failed", what.clone(), format!("{what}: own encoding does not decode: {:?}", m)))?;
                        continue;
                    }
                }
                if i < n {
                    cx.st.inc(&format!("variant.s2.{}.{}", a2::SPECS[*p].name, k));
                }
                ms.push(m);
                encs.push(enc);
            }
            plan.push((*p, ms, encs));
        }
        let pcfg = pipe_cfg(&mut cx.ch);
        let mode = self.mode;
        let server_bit = if cx.ch.chance("mode.server", 1, 2) { 0x8000u16 } else { 0 };
        let mut frag_order: Vec<(u16, Vec<u8>)> = vec![];
        // global send order of whole messages (mode Mux): interleave protocols, keep per-protocol order
        let mut msg_order: Vec<(usize, usize)> = vec![];
        {
            let mut idx: Vec<usize> = vec![0; plan.len()];
            loop {
                let live: Vec<usize> = (0..plan.len()).filter(|i| idx[*i] < plan[*i].1.len()).collect();
                if live.is_empty() {
                    break;
                }
                let i = live[cx.ch.draw("order", live.len() as u64) as usize];
                msg_order.push((i, idx[i]));
                idx[i] += 1;
            }
        }
        if mode == Mode::Cuts {
            let mut per: Vec<(u16, std::collections::VecDeque<Vec<u8>>)> = vec![];
            for (p, _ms, encs) in &plan {
                let body: Vec<u8> = encs[..encs.len() - 1].concat();
                let mut bounds = vec![];
                let mut acc = 0;
                for e in &encs[..encs.len() - 1] {
                    acc += e.len();
                    bounds.push(acc);
                }
                let cs = cuts(&mut cx.ch, body.len(), &bounds);
                cx.st.add("probe.cut_points", cs.len() as u64);
                let mut fr: std::collections::VecDeque<Vec<u8>> = fragments(&body, &cs).into_iter().filter(|f| !f.is_empty()).collect();
                fr.extend(encs.last().unwrap().chunks(65535).map(|c| c.to_vec()));
                per.push((a2::SPECS_CHANNEL[*p] | server_bit, fr));
            }
            while per.iter().any(|x| !x.1.is_empty()) {
                let live: Vec<usize> = (0..per.len()).filter(|i| !per[*i].1.is_empty()).collect();
                let i = live[cx.ch.draw("interleave", live.len() as u64) as usize];
                let f = per[i].1.pop_front().unwrap();
                frag_order.push((per[i].0, f));
            }
            if plan.len() > 1 {
                cx.st.inc("probe.interleaved_protocols");
            }
        }
        let total: usize = plan.iter().map(|x| x.1.len()).sum();
        cx.tr.ev("plan2", &[plan.len() as u64, total as u64, frag_order.len() as u64]);

        let kernel = self.kernel;
        let kbuf: [Option<usize>; 2] = if kernel {
            [*cx.ch.pick("cfg.sndbuf", &[None, Some(1usize), Some(8192), Some(65536)]), *cx.ch.pick("cfg.rcvbuf", &[None, Some(1usize), Some(8192), Some(65536)])]
        } else {
            [None, None]
        };
        if kernel {
            let lim = kbuf[0].map(|x| x.max(4608)).unwrap_or(212_992);
            let big = plan.iter().flat_map(|x| x.2.iter()).filter(|e| e.len() + 8 > lim).count() + frag_order.iter().filter(|f| f.1.len() + 8 > lim).count();
            cx.st.add("fault.kernel_short_write_forced", big as u64);
            if kbuf[0] == Some(1) {
                cx.st.inc("fault.kernel_min_sndbuf");
            }
            if kbuf[1] == Some(1) {
                cx.st.inc("fault.kernel_min_rcvbuf");
            }
        }
        run_sim_opts(cx, kernel, if kernel { 2 * WATCHDOG_S } else { WATCHDOG_S }, |sh| async move {
            type B2 = pallas_network2::bearer::Bearer;
            // (receiving bearer, sending bearer for Mux, raw writer for Cuts, whatever must stay alive)
            let (brx, btx, raw, keep): (B2, Option<B2>, Option<Box<dyn tokio::io::AsyncWrite + Send + Unpin>>, Box<dyn std::any::Any + Send>) = if kernel {
                let (a, b) = unix_pair(kbuf[0], kbuf[1]);
                if mode == Mode::Mux { (B2::Unix(b), Some(B2::Unix(a)), None, Box::new(())) } else { (B2::Unix(b), None, Some(Box::new(a)), Box::new(())) }
            } else {
                let (wa, rb) = pipe("a2b", &sh, &pcfg);
                let (wb, ra) = pipe("b2a", &sh, &pcfg);
                if mode == Mode::Mux { (bearer2(rb, wb), Some(bearer2(ra, wa)), None, Box::new(())) } else { (bearer2(rb, wb), None, Some(Box::new(wa)), Box::new(ra)) }
            };
            let (mut rd, _w_unused) = brx.into_split();
            let sender = if let Some(btx) = btx {
                let (_r_unused, mut wr) = btx.into_split();
                let msgs: Vec<AnyMessage> = msg_order.iter().map(|(i, j)| plan[*i].1[*j].clone()).collect();
                let sh2 = sh.clone();
                tokio::spawn(chaos_auto(
                    async move {
                        for (n, m) in msgs.into_iter().enumerate() {
                            wr.write_message(m, n as u32, server_bit).await.map_err(|e| Violation::new("wire", "net2-write-failed", e.to_string()))?;
                            ev(&sh2, "sent", &[n as u64]);
                            pause(&sh2, "send.pause", 1, 4).await;
                        }
                        std::future::pending::<()>().await; // the writing end stays open until the run ends (the task is aborted then)
                        drop(wr);
                        drop(_r_unused);
                        Ok::<(), Violation>(())
                    },
                    &sh,
                    (1, 8),
                ))
            } else {
                let mut w = raw.unwrap();
                let frags = frag_order.clone();
                let sh2 = sh.clone();
                tokio::spawn(chaos_auto(
                    async move {
                        for (i, (id, f)) in frags.iter().enumerate() {
                            w.write_all(&segment(*id, i as u32, f)).await.map_err(|e| Violation::new("wire", "raw-write-failed", e.to_string()))?;
                            pause(&sh2, "send.pause", 1, 4).await;
                        }
                        std::future::pending::<()>().await; // the writing end stays open until the run ends (the task is aborted then)
                        drop(w);
                        drop(keep);
                        Ok::<(), Violation>(())
                    },
                    &sh,
                    (1, 8),
                ))
            };
            // receiver: the real read_full_msgs loop with the caller-owned partial map
            let mut partial: HashMap<u16, Vec<u8>> = HashMap::new();
            let mut got: Vec<Vec<String>> = vec![vec![]; plan.len()];
            let mut n_got = 0;
            let mut result = Ok(());
            while n_got < total {
                match rd.read_full_msgs::<AnyMessage>(&mut partial).await {
                    Ok(ms) => {
                        ev(&sh, "recv", &[ms.len() as u64]);
                        for m in ms {
                            let (p, _) = a2::kind(&m);
                            match plan.iter().position(|x| x.0 == p) {
                                Some(i) => got[i].push(a2::render2(&m)),
                                None => {
                                    result = Err(Violation::new("wire", "net2:foreign-message", format!("received a message of a protocol nobody sent: {:?}", m)));
                                }
                            }
                            n_got += 1;
                        }
                    }
                    Err(e) => {
                        result = Err(Violation::new("wire", "net2:recv-error", format!("read_full_msgs failed after {n_got}/{total} messages: {e}")));
                        break;
                    }
                }
                if result.is_err() {
                    break;
                }
            }
            sender.abort();
            if result.is_ok() {
                for (i, (p, ms, _)) in plan.iter().enumerate() {
                    let want: Vec<String> = ms.iter().map(a2::render2).collect();
                    if got[i] != want {
                        let j = got[i].iter().zip(want.iter()).position(|(a, b)| a != b).unwrap_or(got[i].len().min(want.len()));
                        result = Err(Violation::new(
                            "wire",
                            format!("net2-{}:message-differs", a2::SPECS[*p].name),
                            format!("{}: message #{j}: got {:?} want {:?} ({} vs {} messages)", a2::SPECS[*p].name, got[i].get(j), want.get(j), got[i].len(), want.len()),
                        ));
                        break;
                    }
                }
            }
            if result.is_ok() && partial.values().any(|v| !v.is_empty()) {
                result = Err(Violation::new("wire", "net2:left-over-bytes", format!("partial_chunks not empty after all messages: {:?}", partial.iter().map(|(k, v)| (*k, v.len())).collect::<Vec<_>>())));
            }
            let mut s = sh.lock().unwrap();
            s.st.progress = true;
            s.st.add("probe.messages_delivered", total as u64);
            result
        })
    }
}

fn variant_probes(stack1: bool, stack2: bool) -> Vec<&'static str> {
    let mut v: Vec<&'static str> = vec![];
    if stack1 {
        for p in 0..N1 {
            for k in 0..SPECS1[p].msgs.len() {
                v.push(Box::leak(format!("variant.s1.{}.{}", NAMES1[p], k).into_boxed_str()));
            }
        }
    }
    if stack2 {
        for p in 0..a2::NPROTO {
            for k in 0..a2::SPECS[p].msgs.len() {
                v.push(Box::leak(format!("variant.s2.{}.{}", a2::SPECS[p].name, k).into_boxed_str()));
            }
        }
    }
    v
}

pub fn def_c21() -> CheckDef {
    let mut required = vec!["probe.cut_points", "probe.interleaved_protocols", "fault.short_read", "fault.stall", "probe.messages_delivered", "fault.kernel_min_rcvbuf", "fault.kernel_min_sndbuf", "fault.recv_future_cancelled"];
    required.extend(variant_probes(true, true));
    CheckDef {
        prop: "C21",
        level: "fault_enumeration",
        batches: vec![
            batch(Wire1 { name: "stack1-seeded-cuts", mode: Mode::Cuts, prop: "C21" }, 20_000, 1_200_000, true),
            batch(Wire2 { name: "stack2-seeded-cuts", mode: Mode::Cuts, prop: "C21", kernel: false }, 20_000, 1_200_000, true),
            batch(Wire2 { name: "stack2-cuts-kernel-unix-socketpair", mode: Mode::Cuts, prop: "C21", kernel: true }, 4_000, 250_000, true),
            batch(crate::engines::p2p::modeb::RealManager { name: "real-pool-recut-replies", faults: false, cuts: true }, 2_000, 120_000, true),
            batch(crate::engines::p2p::modeb::RealManager { name: "real-pool-recut-replies-faults", faults: true, cuts: true }, 1_000, 60_000, true),
        ],
        rule: "a simulated sender concatenates the encodings of 1..8 generated messages per protocol (1..3 protocols, all 11 stack-1 and 8 stack-2 protocol/message variants), cuts them into segments (streams <= 12 bytes: a seeded mask over all 2^(n-1) cut sets; longer: all-1-byte, single cut at any offset, cuts at / next to message boundaries, dense random, k random cuts; never above 65535), interleaves the fragments of different protocols and writes raw segments into a seeded pipe (short reads, stalls, delays, tiny capacities); the real Demuxer+ChannelBuffer::recv_full_msg (stack 1) and BearerReadHalf::read_full_msgs+AnyMessage::from_payload (stack 2) must yield exactly the sent messages in order, then the sentinel, with no error and no left-over bytes; a third batch writes the same raw segments into a kernel Unix socketpair (seeded SO_SNDBUF/SO_RCVBUF down to the kernel minimum) read through the real Bearer::Unix arm of network2; non-trivial = completed run with a non-neutral choice; distinct = distinct traces",
        real: vec!["pallas_network::multiplexer::{Demuxer, Plexer, ChannelBuffer::recv_full_msg, try_decode_message}", "pallas_network2 BearerReadHalf::Unix over a kernel socketpair (batch stack2-cuts-kernel-unix-socketpair)", "every stack-1 message codec", "pallas_network2::bearer::BearerReadHalf::{read_segment, read_full_msgs}", "AnyMessage::from_payload / try_decode_msg", "every stack-2 message codec"],
        stub: vec!["sender (simulated: raw segments with seeded cut points)", "socket (SimPipe, hooks H1/H2) in the two simulated-pipe batches; the Tcp arms of Bearer are never run"],
        assumptions: vec!["message values come from the seeded generators (wire-representable field combinations only)", "the TcpConnectionPool recv loop (mode B) is not driven; read_full_msgs is called directly with a caller-owned partial map, as the pool does"],
        required,
        env_nondeterminism: "segment boundaries, interleaving of other protocols' segments, read granularity, stalls, delays",
    }
}

pub fn def_c22() -> CheckDef {
    let mut required = vec!["probe.messages_delivered", "fault.short_read", "fault.kernel_min_sndbuf", "fault.kernel_short_write_forced"];
    required.extend(variant_probes(true, true));
    CheckDef {
        prop: "C22",
        level: "exploration",
        batches: vec![
            batch(Wire1 { name: "stack1-zoo-real-mux", mode: Mode::Mux, prop: "C22" }, 15_000, 800_000, true),
            batch(Wire2 { name: "stack2-zoo-real-bearer", mode: Mode::Mux, prop: "C22", kernel: false }, 15_000, 800_000, true),
            batch(Wire2 { name: "stack2-zoo-kernel-unix-socketpair", mode: Mode::Mux, prop: "C22", kernel: true }, 4_000, 250_000, true),
        ],
        rule: "generated messages of every variant of every protocol of both stacks are (1) encoded by the real encoder and walked by an independent strict RFC 8949 parser (exactly one item, all declared lengths satisfied, no trailing bytes), (2) decoded back by the real decoder and compared, (3) sent through the real muxer / write_message, a seeded pipe and the real demuxer / read_full_msgs and compared again at the receiving agent; a third batch carries the stack-2 zoo over a kernel Unix socketpair (seeded SO_SNDBUF/SO_RCVBUF down to the kernel minimum, so large messages are written and read in pieces) through the real Bearer::Unix arms; per-variant counters must all be non-zero; non-trivial = completed run with a non-neutral choice; distinct = distinct traces",
        real: vec!["every Encode/Decode impl of pallas_network::miniprotocols::*::Message and payload types", "pallas_network2::protocol::* codecs, AnyMessage::{payload, from_payload}", "Plexer/Muxer/Demuxer/ChannelBuffer", "network2 BearerWriteHalf::write_message / BearerReadHalf::read_full_msgs", "network2 Bearer::Unix read/write arms over a kernel socketpair (batch stack2-zoo-kernel-unix-socketpair)"],
        stub: vec!["socket (SimPipe) in the two simulated-pipe batches; the Tcp arms of Bearer are never run"],
        assumptions: vec!["values are wire-representable combinations (e.g. n2n VersionData with both or neither optional field)", "equality is structural via the derived Debug rendering where PartialEq is not derived; version tables compared sorted"],
        required,
        env_nondeterminism: "segmentation by the real muxer, read granularity, stalls and delays of the pipe, interleaving of sender tasks",
    }
}
