//! C43 — immutable-DB readers report corrupted files as errors, never a panic.
use crate::core::*;
use crate::engines::disk::*;
use pallas_hardano::storage::immutable::{get_tip, read_blocks, read_blocks_from_point, Point};
use pallas_traverse::MultiEraBlock;
use std::path::Path;

pub struct Faulty {
    pub name: &'static str,
    /// truncation sweep: the run index selects the byte offset (enumeration, not sampling)
    pub sweep: bool,
}

fn mutate_file(path: &Path, f: impl FnOnce(&mut Vec<u8>)) {
    if let Ok(mut b) = std::fs::read(path) {
        f(&mut b);
        let _ = std::fs::write(path, b);
    }
}

impl Scenario for Faulty {
    fn name(&self) -> &'static str {
        self.name
    }
    fn may_abort(&self) -> bool {
        true
    }
    fn run(&self, cx: &mut RunCx) -> Result<(), Violation> {
        let mut db = gen_db(&mut cx.ch, 5, 30);
        // make sure there is at least one immutable chunk with blocks most of the time
        if db.len() == 1 {
            let fresh = ChunkModel { number: db[0].number + 1, blocks: vec![], rel: vec![], backfill: 0, finalised: false };
            db[0].finalised = true;
            db.push(fresh);
        }
        let scratch = Scratch::new();
        write_db(&scratch.dir, &db);
        let n_faults = if self.sweep { 1 } else { 1 + cx.ch.draw("faults", 3) };
        for _ in 0..n_faults {
            // faults hit any chunk: torn tails of the open chunk, and bit rot / partial copies of immutable ones
            let ci = cx.ch.draw("fault.chunk", db.len() as u64) as usize;
            let name = db[ci].name();
            let ext = *cx.ch.pick("fault.file", &["primary", "secondary", "chunk"]);
            let path = scratch.dir.join(format!("{name}.{ext}"));
            let len = std::fs::metadata(&path).map(|m| m.len()).unwrap_or(0);
            let kind = if self.sweep { 0 } else { cx.ch.draw("fault.kind", 9) };
            match kind {
                0 => {
                    // truncation (torn / short write, interrupted copy) at a byte offset
                    let at = if len == 0 { 0 } else { cx.ch.draw("fault.truncate.at", len) };
                    cx.tr.ev("fault.truncate", &[ci as u64, hash_str(ext), at]);
                    cx.st.inc(&format!("fault.truncate_{ext}"));
                    mutate_file(&path, |b| b.truncate(at as usize));
                }
                1 => {
                    cx.tr.ev("fault.lost_file", &[ci as u64, hash_str(ext)]);
                    cx.st.inc("fault.lost_file");
                    let _ = std::fs::remove_file(&path);
                }
                2 => {
                    cx.tr.ev("fault.zero_length", &[ci as u64, hash_str(ext)]);
                    cx.st.inc("fault.zero_length_file");
                    let _ = std::fs::write(&path, b"");
                }
                3 | 4 => {
                    // garble one primary offset: decreasing / beyond EOF / u32::MAX / random
                    let p = scratch.dir.join(format!("{name}.primary"));
                    let plen = std::fs::metadata(&p).map(|m| m.len()).unwrap_or(0);
                    if plen >= 5 {
                        let slots = (plen - 1) / 4;
                        let i = cx.ch.draw("fault.primary.idx", slots);
                        let v: u32 = match cx.ch.draw("fault.primary.val", 5) {
                            0 => 0,
                            1 => u32::MAX,
                            2 => 56 * 1000,
                            3 => 55,
                            _ => cx.ch.draw("fault.primary.rand", 1 << 32) as u32,
                        };
                        cx.tr.ev("fault.primary_offset", &[ci as u64, i, v as u64]);
                        cx.st.inc("fault.garbled_primary_offset");
                        mutate_file(&p, |b| b[1 + 4 * i as usize..5 + 4 * i as usize].copy_from_slice(&v.to_be_bytes()));
                    }
                }
                5 | 6 => {
                    // garble one secondary block_offset: before the cursor / beyond EOF / huge
                    let p = scratch.dir.join(format!("{name}.secondary"));
                    let slen = std::fs::metadata(&p).map(|m| m.len()).unwrap_or(0);
                    if slen >= 56 {
                        let i = cx.ch.draw("fault.secondary.idx", slen / 56);
                        let v: u64 = match cx.ch.draw("fault.secondary.val", 6) {
                            0 => 0,
                            1 => u64::MAX,
                            2 => 1 << 40,
                            3 => 1 << 33,
                            4 => 1,
                            _ => cx.ch.draw("fault.secondary.rand", 1 << 24),
                        };
                        cx.tr.ev("fault.secondary_offset", &[ci as u64, i, v]);
                        cx.st.inc("fault.garbled_block_offset");
                        mutate_file(&p, |b| b[56 * i as usize..56 * i as usize + 8].copy_from_slice(&v.to_be_bytes()));
                    }
                }
                _ => {
                    if len > 0 {
                        let at = cx.ch.draw("fault.bitflip.at", len);
                        let bit = cx.ch.draw("fault.bitflip.bit", 8);
                        cx.tr.ev("fault.bitflip", &[ci as u64, hash_str(ext), at, bit]);
                        cx.st.inc(&format!("fault.bitflip_{ext}"));
                        mutate_file(&path, |b| b[at as usize] ^= 1 << bit);
                    }
                }
            }
        }
        // ---- every reader operation; any Ok/Err is fine, output must stay bounded
        let total: usize = db.iter().map(|c| c.blocks.len()).sum();
        let cap = total * 2 + 50;
        let all: Vec<Blk> = db.iter().flat_map(|c| c.blocks.iter().cloned()).collect();
        let yielded = std::cell::Cell::new(0usize);
        let errors = std::cell::Cell::new(0usize);
        let drain = |it: &mut dyn Iterator<Item = pallas_hardano::storage::immutable::FallibleBlock>, what: &str| -> Result<(), Violation> {
            let mut n = 0;
            for b in it {
                match b {
                    Ok(bytes) => {
                        yielded.set(yielded.get() + 1);
                        // a consumer decodes what it gets
                        let _ = MultiEraBlock::decode(&bytes).map(|b| (b.slot(), b.hash(), b.tx_count()));
                    }
                    Err(_) => errors.set(errors.get() + 1),
                }
                n += 1;
                if n > cap {
                    return Err(Violation::new("unbounded", what.to_string(), format!("{what}: iterator yielded more than {cap} items on a database of {total} blocks")));
                }
            }
            Ok(())
        };
        match read_blocks(&scratch.dir) {
            Ok(mut it) => drain(&mut it, "read_blocks")?,
            Err(_) => errors.set(errors.get() + 1),
        }
        let _ = get_tip(&scratch.dir).map_err(|_| errors.set(errors.get() + 1));
        let mut points = vec![Point::Origin];
        for _ in 0..3 {
            if !all.is_empty() {
                let b = &all[cx.ch.draw("point.idx", all.len() as u64) as usize];
                points.push(Point::Specific(b.slot, if cx.ch.chance("point.fuzzy", 1, 2) { vec![] } else { b.hash.clone() }));
                points.push(Point::Specific(b.slot + 1, vec![]));
            }
        }
        for p in points {
            match read_blocks_from_point(&scratch.dir, p) {
                Ok(mut it) => drain(&mut *it, "read_blocks_from_point")?,
                Err(_) => errors.set(errors.get() + 1),
            }
        }
        cx.st.add("probe.blocks_yielded", yielded.get() as u64);
        cx.st.add("probe.errors_reported", errors.get() as u64);
        cx.st.steps += 1;
        cx.st.progress = true;
        Ok(())
    }
}

pub fn def() -> CheckDef {
    CheckDef {
        prop: "C43",
        level: "fault_enumeration",
        batches: vec![
            batch(Faulty { name: "truncation-sweep", sweep: true }, 6_000, 300_000, true),
            batch(Faulty { name: "mixed-disk-faults", sweep: false }, 8_000, 500_000, true),
        ],
        rule: "seeded databases (as in C42) receive 1..3 disk faults that fired are counted per kind: truncation of primary / secondary / chunk files at a seeded byte offset (one per run in the sweep batch, covering the offsets of the small synthetic indexes many times over), lost file, zero-length file, garbled primary offsets (0, u32::MAX, beyond EOF, misaligned, random), garbled secondary block offsets (0, 1, beyond EOF, 2^33, 2^40, u64::MAX), single bit flips; then read_blocks, get_tip and read_blocks_from_point (Origin, exact, fuzzy) run and every yielded block is decoded; oracle: no panic, no process abort (supervised child under a 12 GiB address-space limit), bounded output; non-trivial = completed run with a non-neutral choice; distinct = distinct traces",
        real: vec!["pallas_hardano::storage::immutable::* (chunk/primary/secondary readers)", "MultiEraBlock::decode"],
        stub: vec!["writer (model)", "disk = tmpfs directory; faults are state faults on files (no syscall-level EIO/EINTR: std::fs::File is concrete)"],
        assumptions: vec!["built with overflow checks on: an arithmetic overflow in offset arithmetic counts as the panic it is in the repository's test profile"],
        required: vec!["fault.truncate_primary", "fault.truncate_secondary", "fault.truncate_chunk", "fault.lost_file", "fault.zero_length_file", "fault.garbled_primary_offset", "fault.garbled_block_offset", "fault.bitflip_chunk", "probe.blocks_yielded", "probe.errors_reported"],
        env_nondeterminism: "which files are torn, lost or garbled and where; database shape",
    }
}
