//! E1 netsim1 — pallas-network (and the network2 bearer) on a paused,
//! current-thread tokio runtime over seeded in-memory pipes (hooks H1/H2).

use crate::core::*;
use std::collections::VecDeque;
use std::future::Future;
use std::pin::Pin;
use std::sync::{Arc, Mutex};
use std::task::{Context, Poll, Waker};
use tokio::io::{AsyncRead, AsyncWrite, ReadBuf};

pub mod msgs;

/// Choices / trace / stats shared by every task of one run (single thread; the
/// mutex is never contended, it only makes the handle `Send`).
pub struct Shared {
    pub ch: Choices,
    pub tr: Trace,
    pub st: Stats,
}
pub type Sh = Arc<Mutex<Shared>>;

#[derive(Clone, Debug)]
pub struct PipeCfg {
    /// probability (num/den) that a poll stalls (Pending + self-wake)
    pub stall: (u64, u64),
    /// probability that a read is cut short / a write only partly accepted
    pub short: (u64, u64),
    /// probability that a read arms a simulated-time delay first
    pub delay: (u64, u64),
    /// max bytes buffered before the writer blocks
    pub capacity: usize,
    /// writer side fails with this error once this many bytes were accepted
    pub fail_after: Option<(u64, std::io::ErrorKind)>,
    /// reader sees EOF once this many bytes were delivered (the rest is lost)
    pub eof_after: Option<u64>,
    /// inject ErrorKind::Interrupted on reads/writes with this probability
    pub eintr: (u64, u64),
}

impl Default for PipeCfg {
    fn default() -> Self {
        PipeCfg { stall: (0, 1), short: (0, 1), delay: (0, 1), capacity: 1 << 20, fail_after: None, eof_after: None, eintr: (0, 1) }
    }
}

struct Core {
    buf: VecDeque<u8>,
    closed: bool,
    rwaker: Option<Waker>,
    wwaker: Option<Waker>,
    accepted: u64,
    delivered: u64,
    name: &'static str,
}

pub struct SimRead {
    core: Arc<Mutex<Core>>,
    sh: Sh,
    cfg: PipeCfg,
    sleep: Option<Pin<Box<tokio::time::Sleep>>>,
}
pub struct SimWrite {
    core: Arc<Mutex<Core>>,
    sh: Sh,
    cfg: PipeCfg,
}

pub fn pipe(name: &'static str, sh: &Sh, cfg: &PipeCfg) -> (SimWrite, SimRead) {
    let core = Arc::new(Mutex::new(Core { buf: VecDeque::new(), closed: false, rwaker: None, wwaker: None, accepted: 0, delivered: 0, name }));
    (SimWrite { core: core.clone(), sh: sh.clone(), cfg: cfg.clone() }, SimRead { core, sh: sh.clone(), cfg: cfg.clone(), sleep: None })
}

impl AsyncRead for SimRead {
    fn poll_read(mut self: Pin<&mut Self>, cx: &mut Context<'_>, out: &mut ReadBuf<'_>) -> Poll<std::io::Result<()>> {
        let this = &mut *self;
        if let Some(s) = this.sleep.as_mut() {
            match s.as_mut().poll(cx) {
                Poll::Pending => return Poll::Pending,
                Poll::Ready(()) => this.sleep = None,
            }
        }
        let mut sh = this.sh.lock().unwrap();
        let mut core = this.core.lock().unwrap();
        if sh.ch.chance("pipe.read.stall", this.cfg.stall.0, this.cfg.stall.1) {
            sh.st.inc("fault.stall");
            sh.tr.ev("stall.r", &[]);
            cx.waker().wake_by_ref();
            return Poll::Pending;
        }
        if sh.ch.chance("pipe.read.eintr", this.cfg.eintr.0, this.cfg.eintr.1) {
            sh.st.inc("fault.eintr");
            return Poll::Ready(Err(std::io::ErrorKind::Interrupted.into()));
        }
        if let Some(limit) = this.cfg.eof_after {
            if core.delivered >= limit {
                sh.st.inc("fault.eof_mid_stream");
                sh.tr.ev("eof.injected", &[core.delivered]);
                return Poll::Ready(Ok(()));
            }
        }
        if core.buf.is_empty() {
            if core.closed {
                sh.tr.ev("eof", &[core.delivered]);
                return Poll::Ready(Ok(()));
            }
            core.rwaker = Some(cx.waker().clone());
            return Poll::Pending;
        }
        if sh.ch.chance("pipe.read.delay", this.cfg.delay.0, this.cfg.delay.1) {
            let us = 1 + sh.ch.draw("pipe.read.delay.us", 5_000);
            sh.st.inc("fault.delay");
            drop(core);
            drop(sh);
            let mut s = Box::pin(tokio::time::sleep(std::time::Duration::from_micros(us)));
            if s.as_mut().poll(cx).is_pending() {
                this.sleep = Some(s);
                return Poll::Pending;
            }
            sh = this.sh.lock().unwrap();
            core = this.core.lock().unwrap();
        }
        let mut n = out.remaining().min(core.buf.len());
        if let Some(limit) = this.cfg.eof_after {
            n = n.min((limit - core.delivered) as usize).max(1).min(core.buf.len());
        }
        if n > 1 && sh.ch.chance("pipe.read.short", this.cfg.short.0, this.cfg.short.1) {
            n = 1 + sh.ch.draw("pipe.read.len", n as u64 - 1) as usize;
            sh.st.inc("fault.short_read");
        }
        for _ in 0..n {
            let b = core.buf.pop_front().unwrap();
            out.put_slice(&[b]);
        }
        core.delivered += n as u64;
        sh.tr.ev("rd", &[hash_str(core.name), n as u64]);
        if let Some(w) = core.wwaker.take() {
            w.wake();
        }
        Poll::Ready(Ok(()))
    }
}

impl AsyncWrite for SimWrite {
    fn poll_write(self: Pin<&mut Self>, cx: &mut Context<'_>, data: &[u8]) -> Poll<std::io::Result<usize>> {
        let mut sh = self.sh.lock().unwrap();
        let mut core = self.core.lock().unwrap();
        if sh.ch.chance("pipe.write.stall", self.cfg.stall.0, self.cfg.stall.1) {
            sh.st.inc("fault.stall");
            sh.tr.ev("stall.w", &[]);
            cx.waker().wake_by_ref();
            return Poll::Pending;
        }
        if sh.ch.chance("pipe.write.eintr", self.cfg.eintr.0, self.cfg.eintr.1) {
            sh.st.inc("fault.eintr");
            return Poll::Ready(Err(std::io::ErrorKind::Interrupted.into()));
        }
        if core.closed {
            return Poll::Ready(Err(std::io::ErrorKind::BrokenPipe.into()));
        }
        if let Some((limit, kind)) = self.cfg.fail_after {
            if core.accepted >= limit {
                sh.st.inc("fault.write_error");
                sh.tr.ev("wr.fail", &[core.accepted]);
                core.closed = true;
                if let Some(w) = core.rwaker.take() {
                    w.wake();
                }
                return Poll::Ready(Err(kind.into()));
            }
        }
        if data.is_empty() {
            return Poll::Ready(Ok(0));
        }
        if core.buf.len() >= self.cfg.capacity {
            core.wwaker = Some(cx.waker().clone());
            return Poll::Pending;
        }
        let mut n = data.len().min(self.cfg.capacity - core.buf.len());
        if let Some((limit, _)) = self.cfg.fail_after {
            n = n.min((limit - core.accepted) as usize).max(1);
        }
        if n > 1 && sh.ch.chance("pipe.write.short", self.cfg.short.0, self.cfg.short.1) {
            n = 1 + sh.ch.draw("pipe.write.len", n as u64 - 1) as usize;
            sh.st.inc("fault.partial_write");
        }
        core.buf.extend(&data[..n]);
        core.accepted += n as u64;
        sh.tr.ev("wr", &[hash_str(core.name), n as u64]);
        if let Some(w) = core.rwaker.take() {
            w.wake();
        }
        Poll::Ready(Ok(n))
    }
    fn poll_flush(self: Pin<&mut Self>, _cx: &mut Context<'_>) -> Poll<std::io::Result<()>> {
        Poll::Ready(Ok(()))
    }
    fn poll_shutdown(self: Pin<&mut Self>, _cx: &mut Context<'_>) -> Poll<std::io::Result<()>> {
        let mut core = self.core.lock().unwrap();
        core.closed = true;
        if let Some(w) = core.rwaker.take() {
            w.wake();
        }
        Poll::Ready(Ok(()))
    }
}

impl Drop for SimWrite {
    fn drop(&mut self) {
        if let Ok(mut core) = self.core.lock() {
            core.closed = true;
            if let Some(w) = core.rwaker.take() {
                w.wake();
            }
        }
    }
}

/// Wraps a task future: every poll may stall (self-wake + Pending), which sends
/// the task to the back of tokio's FIFO run queue — the seeded "who runs next".
pub struct Chaos<F> {
    inner: Pin<Box<F>>,
    sh: Sh,
    stall: (u64, u64),
    /// Some(polls left in the current regime): the stall rate is re-drawn per task and per stretch of
    /// polls, so that one task can run far ahead of another (starvation-like schedules that a uniform
    /// rate practically never produces)
    regime: Option<u64>,
}

pub fn chaos<F: Future>(f: F, sh: &Sh, stall: (u64, u64)) -> Chaos<F> {
    Chaos { inner: Box::pin(f), sh: sh.clone(), stall, regime: None }
}

/// per task a coin decides between the fixed rate and a changing regime
pub fn chaos_auto<F: Future>(f: F, sh: &Sh, stall: (u64, u64)) -> Chaos<F> {
    let var = sh.lock().unwrap().ch.chance("task.var_regime", 1, 2);
    if var { chaos_var(f, sh) } else { chaos(f, sh, stall) }
}

/// like `chaos`, with a per-task stall rate from {0, 1/8, 4/8, 7/8} re-drawn every 1..64 polls
pub fn chaos_var<F: Future>(f: F, sh: &Sh) -> Chaos<F> {
    Chaos { inner: Box::pin(f), sh: sh.clone(), stall: (0, 8), regime: Some(0) }
}

impl<F: Future> Future for Chaos<F> {
    type Output = F::Output;
    fn poll(mut self: Pin<&mut Self>, cx: &mut Context<'_>) -> Poll<F::Output> {
        if let Some(left) = self.regime {
            if left == 0 {
                let (rate, len) = {
                    let mut sh = self.sh.lock().unwrap();
                    (*sh.ch.pick("task.regime.rate", &[0u64, 1, 4, 7]), 1 + sh.ch.draw("task.regime.len", 64))
                };
                self.stall = (rate, 8);
                self.regime = Some(len);
                if rate == 7 {
                    self.sh.lock().unwrap().st.inc("fault.task_starved_regime");
                }
            } else {
                self.regime = Some(left - 1);
            }
        }
        {
            let mut sh = self.sh.lock().unwrap();
            if sh.ch.chance("task.stall", self.stall.0, self.stall.1) {
                sh.st.inc("fault.task_stall");
                sh.tr.ev("stall.t", &[]);
                cx.waker().wake_by_ref();
                return Poll::Pending;
            }
        }
        self.inner.as_mut().poll(cx)
    }
}

/// a seeded pause inside a workload task (simulated time)
pub async fn pause(sh: &Sh, label: &'static str, num: u64, den: u64) {
    let us = {
        let mut s = sh.lock().unwrap();
        if s.ch.chance(label, num, den) { 1 + s.ch.draw("pause.us", 20_000) } else { 0 }
    };
    if us > 0 {
        tokio::time::sleep(std::time::Duration::from_micros(us)).await;
    } else {
        tokio::task::yield_now().await;
    }
}

pub const WATCHDOG_S: u64 = 300;

/// Run `f` on a fresh paused current-thread runtime; the run's Choices/Trace/Stats
/// are lent to the tasks through `Sh` and handed back afterwards.
/// Returns Err("stuck") when the simulated-time watchdog fires.
pub fn run_sim<F, Fut>(cx: &mut RunCx, f: F) -> Result<(), Violation>
where
    F: FnOnce(Sh) -> Fut,
    Fut: Future<Output = Result<(), Violation>>,
{
    run_sim_opts(cx, false, WATCHDOG_S, f)
}

/// `io`: the runtime also gets tokio's I/O driver, for the batches whose bearer is a real kernel
/// socketpair (the socket-specific arms of `Bearer`). With a paused clock tokio jumps to the next timer
/// on every park, also when the park delivered socket readiness, so such batches take a longer watchdog.
pub fn run_sim_opts<F, Fut>(cx: &mut RunCx, io: bool, watchdog_s: u64, f: F) -> Result<(), Violation>
where
    F: FnOnce(Sh) -> Fut,
    Fut: Future<Output = Result<(), Violation>>,
{
    let seed = cx.ch.u64("tokio.rng_seed");
    let ch = std::mem::replace(&mut cx.ch, Choices::replay(vec![]));
    let tr = std::mem::replace(&mut cx.tr, Trace::new(false));
    let st = std::mem::take(&mut cx.st);
    let sh: Sh = Arc::new(Mutex::new(Shared { ch, tr, st }));
    let mut b = tokio::runtime::Builder::new_current_thread();
    b.enable_time().start_paused(true).rng_seed(tokio::runtime::RngSeed::from_bytes(&seed.to_le_bytes()));
    if io {
        b.enable_io();
    }
    let rt = b.build().expect("runtime");
    let sh2 = sh.clone();
    // a panic in the main future unwinds out of block_on: catch it here so that the run's choice tape,
    // trace and counters (lent to the tasks) are handed back first - a violation without its tape cannot
    // be replayed
    let res = std::panic::catch_unwind(std::panic::AssertUnwindSafe(|| rt.block_on(async move {
        let t0 = tokio::time::Instant::now();
        if io {
            // tokio's paused clock jumps to the next timer on every park, also when the park delivered
            // socket readiness. A 10 ms ticker bounds each jump, so that simulated time-outs (and the
            // watchdog) measure parks without progress rather than firing on the first socket round trip.
            tokio::spawn(async {
                loop {
                    tokio::time::sleep(std::time::Duration::from_millis(10)).await;
                }
            });
        }
        let r = tokio::time::timeout(std::time::Duration::from_secs(watchdog_s), f(sh2.clone())).await;
        let el = t0.elapsed();
        sh2.lock().unwrap().st.sim_time_ns += el.as_nanos() as u64;
        match r {
            Ok(r) => r,
            Err(_) => Err(Violation::new("stuck", "watchdog", format!("no progress: the simulated-time watchdog ({watchdog_s} s) fired with all tasks blocked"))),
        }
    })));
    drop(rt); // aborts and drops any task still alive (plexer loops)
    let mut g = sh.lock().unwrap_or_else(|e| e.into_inner());
    cx.ch = std::mem::replace(&mut g.ch, Choices::replay(vec![]));
    cx.tr = std::mem::replace(&mut g.tr, Trace::new(false));
    cx.st = std::mem::take(&mut g.st);
    drop(g);
    let res = match res {
        Ok(r) => r,
        Err(payload) => match take_panic() {
            Some((f, m)) => return Err(panic_violation(&f, &m)),
            None => std::panic::resume_unwind(payload),
        },
    };
    if res.is_ok() {
        if let Some((f, m)) = take_panic() {
            return Err(panic_violation(&f, &m));
        }
    }
    res
}

pub fn ev(sh: &Sh, kind: &'static str, vals: &[u64]) {
    sh.lock().unwrap().tr.ev(kind, vals);
}
pub fn inc(sh: &Sh, k: &str) {
    sh.lock().unwrap().st.inc(k);
}
pub fn draw(sh: &Sh, label: &'static str, bound: u64) -> u64 {
    sh.lock().unwrap().ch.draw(label, bound)
}
pub fn chance(sh: &Sh, label: &'static str, n: u64, d: u64) -> bool {
    sh.lock().unwrap().ch.chance(label, n, d)
}

pub fn bearer1(r: SimRead, w: SimWrite) -> pallas_network::multiplexer::Bearer {
    pallas_network::multiplexer::Bearer::Sim(Box::new(r), Box::new(w))
}
pub fn bearer2(r: SimRead, w: SimWrite) -> pallas_network2::bearer::Bearer {
    pallas_network2::bearer::Bearer::Sim(Box::new(r), Box::new(w))
}

/// A connected pair of kernel Unix stream sockets with the given send/receive buffer sizes
/// (None = kernel default). Must be called inside a runtime that has the I/O driver.
pub fn unix_pair(sndbuf: Option<usize>, rcvbuf: Option<usize>) -> (tokio::net::UnixStream, tokio::net::UnixStream) {
    use std::os::fd::AsRawFd;
    let (a, b) = tokio::net::UnixStream::pair().expect("socketpair");
    for s in [&a, &b] {
        for (opt, v) in [(libc::SO_SNDBUF, sndbuf), (libc::SO_RCVBUF, rcvbuf)] {
            if let Some(v) = v {
                let v = v as libc::c_int;
                let rc = unsafe { libc::setsockopt(s.as_raw_fd(), libc::SOL_SOCKET, opt, &v as *const _ as *const libc::c_void, std::mem::size_of::<libc::c_int>() as u32) };
                assert_eq!(rc, 0, "setsockopt");
            }
        }
    }
    (a, b)
}
