//! Stack-1 (pallas-network) message zoo: one enum over every core mini-protocol's
//! message type, with seeded generators for every variant, encode/decode through
//! the real codecs and the spec message kind.

use crate::core::Choices;
use crate::spec::proto::{self as sp, Spec};
use pallas_codec::minicbor;
use pallas_codec::utils::AnyCbor;
use pallas_network::miniprotocols as mp;
use std::sync::OnceLock;

pub const HSN: usize = 0;
pub const HSC: usize = 1;
pub const CSH: usize = 2;
pub const CSB: usize = 3;
pub const BF: usize = 4;
pub const TS: usize = 5;
pub const KA: usize = 6;
pub const PS: usize = 7;
pub const LSQ: usize = 8;
pub const LTS: usize = 9;
pub const TM: usize = 10;
pub const N1: usize = 11;

pub static SPECS1: [&Spec; N1] = [
    &sp::HANDSHAKE,
    &sp::HANDSHAKE,
    &sp::CHAINSYNC,
    &sp::CHAINSYNC,
    &sp::BLOCKFETCH,
    &sp::TXSUBMISSION,
    &sp::KEEPALIVE,
    &sp::PEERSHARING,
    &sp::LOCALSTATE,
    &sp::LOCALTXSUBMISSION,
    &sp::TXMONITOR,
];
pub static NAMES1: [&str; N1] = [
    "handshake-n2n", "handshake-n2c", "chainsync-header", "chainsync-block", "blockfetch", "txsubmission", "keepalive", "peersharing", "localstate", "localtxsubmission", "txmonitor",
];
pub static WIRE_ID: [u16; N1] = [0, 0, 2, 5, 3, 4, 8, 10, 7, 6, 9];

type LtsMsg = mp::localtxsubmission::Message<mp::localtxsubmission::EraTx, mp::localtxsubmission::TxValidationError>;
type TsMsg = mp::txsubmission::Message<mp::txsubmission::EraTxId, mp::txsubmission::EraTxBody>;

#[derive(Debug)]
pub enum M1 {
    HsN(mp::handshake::Message<mp::handshake::n2n::VersionData>),
    HsC(mp::handshake::Message<mp::handshake::n2c::VersionData>),
    CsH(mp::chainsync::Message<mp::chainsync::HeaderContent>),
    CsB(mp::chainsync::Message<mp::chainsync::BlockContent>),
    Bf(mp::blockfetch::Message),
    Ts(TsMsg),
    Ka(mp::keepalive::Message),
    Ps(mp::peersharing::Message),
    Lsq(mp::localstate::Message),
    Lts(LtsMsg),
    Tm(mp::txmonitor::Message),
}

/// Reject reasons harvested from the hex vectors in the repository's own codec tests
/// (read from /repo at start-up; they are the only realistic source of these values).
pub fn reject_corpus() -> &'static Vec<Vec<u8>> {
    static C: OnceLock<Vec<Vec<u8>>> = OnceLock::new();
    C.get_or_init(|| {
        let mut out = vec![];
        if let Ok(src) = std::fs::read_to_string("/repo/pallas-network/src/miniprotocols/localtxsubmission/codec.rs") {
            for part in src.split('"') {
                if part.len() >= 12 && part.len() % 2 == 0 && part.starts_with("8182") && part.bytes().all(|b| b.is_ascii_hexdigit()) {
                    if let Ok(b) = hex::decode(part) {
                        out.push(b);
                    }
                }
            }
        }
        out
    })
}

fn point(ch: &mut Choices) -> mp::Point {
    if ch.chance("point.origin", 1, 6) {
        mp::Point::Origin
    } else {
        let n = *ch.pick("point.hashlen", &[32usize, 32, 32, 0, 1, 28]);
        mp::Point::Specific(u64v(ch), ch.bytes("point.hash", n))
    }
}
fn u64v(ch: &mut Choices) -> u64 {
    match ch.draw("u64.class", 6) {
        0 => ch.draw("u64.small", 24),
        1 => ch.draw("u64.byte", 256),
        2 => ch.draw("u64.u16", 1 << 16),
        3 => ch.draw("u64.u32", 1 << 32),
        4 => u64::MAX - ch.draw("u64.top", 3),
        _ => ch.u64("u64.any"),
    }
}
fn tip(ch: &mut Choices) -> mp::chainsync::Tip {
    mp::chainsync::Tip(point(ch), u64v(ch))
}
pub fn blob(ch: &mut Choices, max: usize) -> Vec<u8> {
    // one body in thirty-two is larger than a mux segment can carry (60..140 kB, expanded from one drawn
    // seed): the real muxer then sends the message in several segments, whatever its type
    if max >= 500 && ch.draw("blob.big", 32) == 31 {
        return crate::engines::p2p::adapter::big_blob(ch);
    }
    let n = match ch.draw("blob.class", 6) {
        0 => 0,
        1 => 1 + ch.draw("blob.small", 23) as usize,
        2 => 24 + ch.draw("blob.mid", 300) as usize,
        3 => 255 + ch.draw("blob.edge", 3) as usize,
        _ => ch.draw("blob.any", max as u64 + 1) as usize,
    };
    ch.bytes("blob", n.min(max))
}
fn anycbor(ch: &mut Choices) -> AnyCbor {
    let a = crate::engines::p2p::adapter::gen_anycbor(ch);
    AnyCbor::from_raw_bytes(a.raw_bytes().to_vec())
}
fn vtable_n2n(ch: &mut Choices, max: u64) -> mp::handshake::n2n::VersionTable {
    let n = ch.draw("vt.len", max + 1);
    let mut values = std::collections::HashMap::new();
    for _ in 0..n {
        values.insert(4 + ch.draw("vt.ver", 14), vdata_n2n(ch));
    }
    mp::handshake::n2n::VersionTable { values }
}
fn vdata_n2n(ch: &mut Choices) -> mp::handshake::n2n::VersionData {
    let magic = *ch.pick("vd.magic", &[mp::MAINNET_MAGIC, mp::PREPROD_MAGIC, 2, u64::MAX]);
    let iod = ch.draw("vd.iod", 2) == 1;
    if ch.draw("vd.long", 2) == 1 {
        mp::handshake::n2n::VersionData::new(magic, iod, Some(ch.draw("vd.ps", 3) as u8), Some(ch.draw("vd.query", 2) == 1))
    } else {
        mp::handshake::n2n::VersionData::new(magic, iod, None, None)
    }
}
fn vdata_n2c(ch: &mut Choices) -> mp::handshake::n2c::VersionData {
    let magic = *ch.pick("vd.magic", &[mp::MAINNET_MAGIC, mp::PREPROD_MAGIC, 2, u64::MAX]);
    let q = match ch.draw("vdc.q", 3) {
        0 => None,
        1 => Some(false),
        _ => Some(true),
    };
    mp::handshake::n2c::VersionData::new(magic, q)
}
fn vtable_n2c(ch: &mut Choices, max: u64) -> mp::handshake::n2c::VersionTable {
    let n = ch.draw("vt.len", max + 1);
    let mut values = std::collections::HashMap::new();
    for _ in 0..n {
        values.insert(32768 + 9 + ch.draw("vt.ver", 12), vdata_n2c(ch));
    }
    mp::handshake::n2c::VersionTable { values }
}
fn refuse(ch: &mut Choices) -> mp::handshake::RefuseReason {
    match ch.draw("hs.refuse.kind", 3) {
        0 => mp::handshake::RefuseReason::VersionMismatch((0..ch.draw("hs.vm.len", 4)).map(|_| u64v(ch)).collect()),
        1 => mp::handshake::RefuseReason::HandshakeDecodeError(u64v(ch), "decode".into()),
        _ => mp::handshake::RefuseReason::Refused(u64v(ch), "nö ∀".into()),
    }
}
fn header(ch: &mut Choices) -> mp::chainsync::HeaderContent {
    let variant = ch.draw("hdr.variant", 8) as u8;
    mp::chainsync::HeaderContent {
        variant,
        byron_prefix: if variant == 0 { Some((ch.draw("hdr.bp.a", 256) as u8, u64v(ch))) } else { None },
        cbor: blob(ch, 2000),
    }
}
fn txid(ch: &mut Choices) -> mp::txsubmission::EraTxId {
    mp::txsubmission::EraTxId(ch.draw("txid.era", 8) as u16, ch.bytes("txid.hash", 32))
}
fn peer_addr(ch: &mut Choices) -> mp::peersharing::PeerAddress {
    let port = *ch.pick("addr.port", &[0u32, 3001, 65535]);
    if ch.draw("addr.v6", 2) == 1 {
        // special address classes as well as random ones: unspecified, loopback, v4-mapped, v4-compatible, link-local
        let (hi, lo): (u128, u128) = match ch.draw("addr.v6.class", 7) {
            0 => (0, 0),
            1 => (0, 1),
            2 => (0, 0xffff_0000_0000 | ch.draw("addr.v6.mapped", 1 << 32) as u128),
            3 => (0, ch.draw("addr.v6.compat", 1 << 32) as u128),
            4 => (0xfe80_0000_0000_0000, ch.u64("addr.v6.lo") as u128),
            _ => (ch.u64("addr.v6.hi") as u128, ch.u64("addr.v6.lo") as u128),
        };
        mp::peersharing::PeerAddress::V6(std::net::Ipv6Addr::from_bits((hi << 64) | lo), port)
    } else {
        mp::peersharing::PeerAddress::V4(std::net::Ipv4Addr::from_bits(match ch.draw("addr.v4.class", 4) { 0 => 0, 1 => u32::MAX, 2 => 0x7f000001, _ => ch.draw("addr.v4", 1 << 32) as u32 }), port)
    }
}

fn cs_msg<C>(k: u8, ch: &mut Choices, content: impl Fn(&mut Choices) -> C) -> mp::chainsync::Message<C> {
    use mp::chainsync::Message as M;
    match k {
        0 => M::RequestNext,
        1 => M::AwaitReply,
        2 => M::RollForward(content(ch), tip(ch)),
        3 => M::RollBackward(point(ch), tip(ch)),
        4 => M::FindIntersect((0..ch.draw("cs.fi.len", 4)).map(|_| point(ch)).collect()),
        5 => M::IntersectFound(point(ch), tip(ch)),
        6 => M::IntersectNotFound(tip(ch)),
        _ => M::Done,
    }
}

/// message of protocol `p` and spec kind `k` (see spec::proto message tables)
pub fn gen1(p: usize, k: u8, ch: &mut Choices) -> M1 {
    match p {
        HSN => M1::HsN(match k {
            0 => mp::handshake::Message::Propose(vtable_n2n(ch, 5)),
            1 => mp::handshake::Message::Accept(u64v(ch), vdata_n2n(ch)),
            2 => mp::handshake::Message::Refuse(refuse(ch)),
            _ => mp::handshake::Message::QueryReply(vtable_n2n(ch, 5)),
        }),
        HSC => M1::HsC(match k {
            0 => mp::handshake::Message::Propose(vtable_n2c(ch, 5)),
            1 => mp::handshake::Message::Accept(u64v(ch), vdata_n2c(ch)),
            2 => mp::handshake::Message::Refuse(refuse(ch)),
            _ => mp::handshake::Message::QueryReply(vtable_n2c(ch, 5)),
        }),
        CSH => M1::CsH(cs_msg(k, ch, header)),
        CSB => M1::CsB(cs_msg(k, ch, |ch| mp::chainsync::BlockContent(blob(ch, 3000)))),
        BF => M1::Bf(match k {
            0 => mp::blockfetch::Message::RequestRange { range: (point(ch), point(ch)) },
            1 => mp::blockfetch::Message::ClientDone,
            2 => mp::blockfetch::Message::StartBatch,
            3 => mp::blockfetch::Message::NoBlocks,
            4 => mp::blockfetch::Message::Block { body: blob(ch, 70_000) },
            _ => mp::blockfetch::Message::BatchDone,
        }),
        TS => M1::Ts(match k {
            0 => TsMsg::Init,
            1 => TsMsg::RequestTxIds(true, ch.draw("ts.ack", 1 << 16) as u16, ch.draw("ts.req", 1 << 16) as u16),
            2 => TsMsg::RequestTxIds(false, ch.draw("ts.ack", 1 << 16) as u16, ch.draw("ts.req", 1 << 16) as u16),
            3 => TsMsg::ReplyTxIds((0..ch.draw("ts.ids.len", 4)).map(|_| mp::txsubmission::TxIdAndSize(txid(ch), ch.draw("ts.size", 1 << 32) as u32)).collect()),
            4 => TsMsg::RequestTxs((0..ch.draw("ts.reqtxs.len", 4)).map(|_| txid(ch)).collect()),
            5 => TsMsg::ReplyTxs((0..ch.draw("ts.txs.len", 4)).map(|_| mp::txsubmission::EraTxBody(ch.draw("ts.era", 8) as u16, blob(ch, 600))).collect()),
            _ => TsMsg::Done,
        }),
        KA => M1::Ka(match k {
            0 => mp::keepalive::Message::KeepAlive(ch.draw("ka.cookie", 1 << 16) as u16),
            1 => mp::keepalive::Message::ResponseKeepAlive(ch.draw("ka.cookie", 1 << 16) as u16),
            _ => mp::keepalive::Message::Done,
        }),
        PS => M1::Ps(match k {
            0 => mp::peersharing::Message::ShareRequest(ch.draw("ps.amount", 256) as u8),
            1 => mp::peersharing::Message::SharePeers((0..ch.draw("ps.peers.len", 5)).map(|_| peer_addr(ch)).collect()),
            _ => mp::peersharing::Message::Done,
        }),
        LSQ => M1::Lsq(match k {
            0 => mp::localstate::Message::Acquire(if ch.chance("lsq.tip", 1, 3) { None } else { Some(point(ch)) }),
            1 => mp::localstate::Message::Failure(if ch.draw("lsq.fail", 2) == 0 { mp::localstate::AcquireFailure::PointTooOld } else { mp::localstate::AcquireFailure::PointNotOnChain }),
            2 => mp::localstate::Message::Acquired,
            3 => mp::localstate::Message::Query(anycbor(ch)),
            4 => mp::localstate::Message::Result(anycbor(ch)),
            5 => mp::localstate::Message::ReAcquire(if ch.chance("lsq.tip", 1, 3) { None } else { Some(point(ch)) }),
            6 => mp::localstate::Message::Release,
            _ => mp::localstate::Message::Done,
        }),
        LTS => M1::Lts(match k {
            0 => LtsMsg::SubmitTx(mp::localtxsubmission::EraTx(ch.draw("lts.era", 8) as u16, blob(ch, 3000))),
            1 => LtsMsg::AcceptTx,
            2 if ch.chance("lts.reject.plutus", 1, 12) => LtsMsg::RejectTx(mp::localtxsubmission::TxValidationError::Plutus("script failed".into())),
            2 => {
                let corpus = reject_corpus();
                let mut r = None;
                if !corpus.is_empty() {
                    let b = &corpus[ch.draw("lts.reject.idx", corpus.len() as u64) as usize];
                    // the vectors are the reason as it appears inside the message: decode with the real codec
                    r = minicbor::decode::<mp::localtxsubmission::TxValidationError>(b).ok();
                }
                match r {
                    Some(x) => LtsMsg::RejectTx(x),
                    None => LtsMsg::RejectTx(mp::localtxsubmission::TxValidationError::ShelleyTxValidationError {
                        error: mp::localtxsubmission::ApplyTxError(vec![]),
                        era: mp::localtxsubmission::ShelleyBasedEra::Conway,
                    }),
                }
            }
            _ => LtsMsg::Done,
        }),
        _ => M1::Tm(match k {
            0 => mp::txmonitor::Message::Acquire,
            1 => mp::txmonitor::Message::Acquired(u64v(ch)),
            2 => mp::txmonitor::Message::AwaitAcquire,
            3 => mp::txmonitor::Message::Release,
            4 => mp::txmonitor::Message::RequestNextTx,
            5 => mp::txmonitor::Message::ResponseNextTx(if ch.chance("tm.none", 1, 3) {
                None
            } else {
                Some((ch.draw("tm.era", 8) as u8, pallas_codec::utils::TagWrap::new(blob(ch, 500).into())))
            }),
            6 => mp::txmonitor::Message::RequestHasTx(hex::encode(ch.bytes("tm.txid", 32))),
            7 => mp::txmonitor::Message::ResponseHasTx(ch.draw("tm.has", 2) == 1),
            8 => mp::txmonitor::Message::RequestSizeAndCapacity,
            9 => mp::txmonitor::Message::ResponseSizeAndCapacity(mp::txmonitor::MempoolSizeAndCapacity {
                capacity_in_bytes: ch.draw("tm.cap", 1 << 32) as u32,
                size_in_bytes: ch.draw("tm.size", 1 << 32) as u32,
                number_of_txs: ch.draw("tm.n", 1 << 32) as u32,
            }),
            _ => mp::txmonitor::Message::Done,
        }),
    }
}

impl M1 {
    pub fn encode(&self) -> Result<Vec<u8>, String> {
        fn e<T: minicbor::Encode<()>>(x: &T) -> Result<Vec<u8>, String> {
            minicbor::to_vec(x).map_err(|e| e.to_string())
        }
        match self {
            M1::HsN(m) => e(m),
            M1::HsC(m) => e(m),
            M1::CsH(m) => e(m),
            M1::CsB(m) => e(m),
            M1::Bf(m) => e(m),
            M1::Ts(m) => e(m),
            M1::Ka(m) => e(m),
            M1::Ps(m) => e(m),
            M1::Lsq(m) => e(m),
            M1::Lts(m) => e(m),
            M1::Tm(m) => e(m),
        }
    }
    pub fn decode(p: usize, b: &[u8]) -> Result<M1, String> {
        fn d<'b, T: minicbor::Decode<'b, ()>>(b: &'b [u8]) -> Result<T, String> {
            minicbor::decode(b).map_err(|e| e.to_string())
        }
        Ok(match p {
            HSN => M1::HsN(d(b)?),
            HSC => M1::HsC(d(b)?),
            CSH => M1::CsH(d(b)?),
            CSB => M1::CsB(d(b)?),
            BF => M1::Bf(d(b)?),
            TS => M1::Ts(d(b)?),
            KA => M1::Ka(d(b)?),
            PS => M1::Ps(d(b)?),
            LSQ => M1::Lsq(d(b)?),
            LTS => M1::Lts(d(b)?),
            _ => M1::Tm(d(b)?),
        })
    }
    pub fn proto(&self) -> usize {
        match self {
            M1::HsN(_) => HSN,
            M1::HsC(_) => HSC,
            M1::CsH(_) => CSH,
            M1::CsB(_) => CSB,
            M1::Bf(_) => BF,
            M1::Ts(_) => TS,
            M1::Ka(_) => KA,
            M1::Ps(_) => PS,
            M1::Lsq(_) => LSQ,
            M1::Lts(_) => LTS,
            M1::Tm(_) => TM,
        }
    }
    /// spec message kind
    pub fn kind(&self) -> u8 {
        fn hs<D: std::fmt::Debug + Clone>(m: &mp::handshake::Message<D>) -> u8 {
            match m {
                mp::handshake::Message::Propose(_) => 0,
                mp::handshake::Message::Accept(..) => 1,
                mp::handshake::Message::Refuse(_) => 2,
                mp::handshake::Message::QueryReply(_) => 3,
            }
        }
        fn cs<C>(m: &mp::chainsync::Message<C>) -> u8 {
            use mp::chainsync::Message as M;
            match m {
                M::RequestNext => 0,
                M::AwaitReply => 1,
                M::RollForward(..) => 2,
                M::RollBackward(..) => 3,
                M::FindIntersect(_) => 4,
                M::IntersectFound(..) => 5,
                M::IntersectNotFound(_) => 6,
                M::Done => 7,
            }
        }
        match self {
            M1::HsN(m) => hs(m),
            M1::HsC(m) => hs(m),
            M1::CsH(m) => cs(m),
            M1::CsB(m) => cs(m),
            M1::Bf(m) => match m {
                mp::blockfetch::Message::RequestRange { .. } => 0,
                mp::blockfetch::Message::ClientDone => 1,
                mp::blockfetch::Message::StartBatch => 2,
                mp::blockfetch::Message::NoBlocks => 3,
                mp::blockfetch::Message::Block { .. } => 4,
                mp::blockfetch::Message::BatchDone => 5,
            },
            M1::Ts(m) => match m {
                TsMsg::Init => 0,
                TsMsg::RequestTxIds(true, ..) => 1,
                TsMsg::RequestTxIds(false, ..) => 2,
                TsMsg::ReplyTxIds(_) => 3,
                TsMsg::RequestTxs(_) => 4,
                TsMsg::ReplyTxs(_) => 5,
                TsMsg::Done => 6,
            },
            M1::Ka(m) => match m {
                mp::keepalive::Message::KeepAlive(_) => 0,
                mp::keepalive::Message::ResponseKeepAlive(_) => 1,
                mp::keepalive::Message::Done => 2,
            },
            M1::Ps(m) => match m {
                mp::peersharing::Message::ShareRequest(_) => 0,
                mp::peersharing::Message::SharePeers(_) => 1,
                mp::peersharing::Message::Done => 2,
            },
            M1::Lsq(m) => match m {
                mp::localstate::Message::Acquire(_) => 0,
                mp::localstate::Message::Failure(_) => 1,
                mp::localstate::Message::Acquired => 2,
                mp::localstate::Message::Query(_) => 3,
                mp::localstate::Message::Result(_) => 4,
                mp::localstate::Message::ReAcquire(_) => 5,
                mp::localstate::Message::Release => 6,
                mp::localstate::Message::Done => 7,
            },
            M1::Lts(m) => match m {
                LtsMsg::SubmitTx(_) => 0,
                LtsMsg::AcceptTx => 1,
                LtsMsg::RejectTx(_) => 2,
                LtsMsg::Done => 3,
            },
            M1::Tm(m) => match m {
                mp::txmonitor::Message::Acquire => 0,
                mp::txmonitor::Message::Acquired(_) => 1,
                mp::txmonitor::Message::AwaitAcquire => 2,
                mp::txmonitor::Message::Release => 3,
                mp::txmonitor::Message::RequestNextTx => 4,
                mp::txmonitor::Message::ResponseNextTx(_) => 5,
                mp::txmonitor::Message::RequestHasTx(_) => 6,
                mp::txmonitor::Message::ResponseHasTx(_) => 7,
                mp::txmonitor::Message::RequestSizeAndCapacity => 8,
                mp::txmonitor::Message::ResponseSizeAndCapacity(_) => 9,
                mp::txmonitor::Message::Done => 10,
            },
        }
    }
    /// structural equality via the derived Debug rendering (several message types lack PartialEq);
    /// HashMap-bearing version tables are rendered sorted.
    pub fn render(&self) -> String {
        fn table<D: std::fmt::Debug + Clone>(t: &mp::handshake::VersionTable<D>) -> String {
            let mut ks: Vec<_> = t.values.iter().collect();
            ks.sort_by_key(|x| *x.0);
            format!("{:?}", ks)
        }
        fn hs<D: std::fmt::Debug + Clone>(m: &mp::handshake::Message<D>) -> String {
            match m {
                mp::handshake::Message::Propose(t) => format!("Propose({})", table(t)),
                mp::handshake::Message::QueryReply(t) => format!("QueryReply({})", table(t)),
                other => format!("{:?}", other),
            }
        }
        match self {
            M1::HsN(m) => hs(m),
            M1::HsC(m) => hs(m),
            other => format!("{:?}", other),
        }
    }
}

pub async fn recv1(p: usize, b: &mut pallas_network::multiplexer::ChannelBuffer) -> Result<M1, pallas_network::multiplexer::Error> {
    Ok(match p {
        HSN => M1::HsN(b.recv_full_msg().await?),
        HSC => M1::HsC(b.recv_full_msg().await?),
        CSH => M1::CsH(b.recv_full_msg().await?),
        CSB => M1::CsB(b.recv_full_msg().await?),
        BF => M1::Bf(b.recv_full_msg().await?),
        TS => M1::Ts(b.recv_full_msg().await?),
        KA => M1::Ka(b.recv_full_msg().await?),
        PS => M1::Ps(b.recv_full_msg().await?),
        LSQ => M1::Lsq(b.recv_full_msg().await?),
        LTS => M1::Lts(b.recv_full_msg().await?),
        _ => M1::Tm(b.recv_full_msg().await?),
    })
}

pub async fn send1(b: &mut pallas_network::multiplexer::ChannelBuffer, m: &M1) -> Result<(), pallas_network::multiplexer::Error> {
    match m {
        M1::HsN(m) => b.send_msg_chunks(m).await,
        M1::HsC(m) => b.send_msg_chunks(m).await,
        M1::CsH(m) => b.send_msg_chunks(m).await,
        M1::CsB(m) => b.send_msg_chunks(m).await,
        M1::Bf(m) => b.send_msg_chunks(m).await,
        M1::Ts(m) => b.send_msg_chunks(m).await,
        M1::Ka(m) => b.send_msg_chunks(m).await,
        M1::Ps(m) => b.send_msg_chunks(m).await,
        M1::Lsq(m) => b.send_msg_chunks(m).await,
        M1::Lts(m) => b.send_msg_chunks(m).await,
        M1::Tm(m) => b.send_msg_chunks(m).await,
    }
}
