pub mod disk;
pub mod net1;
pub mod p2p;
