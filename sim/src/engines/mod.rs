pub mod p2p;
