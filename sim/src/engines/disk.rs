//! E3 disksim — writer model of cardano-node's ImmutableDB (DESIGN Appendix B) producing
//! per-run database directories in a tmpfs scratch dir; the real pallas-hardano reader
//! runs against them, interleaved with further writer steps.

use crate::core::*;
use pallas_traverse::MultiEraBlock;
use std::path::{Path, PathBuf};
use std::sync::OnceLock;

#[derive(Clone)]
pub struct Blk {
    pub bytes: Vec<u8>,
    pub slot: u64,
    pub hash: Vec<u8>,
    pub number: u64,
}

/// blocks of the repository's three test chunks, in chain order per source chunk
pub fn corpus() -> &'static Vec<Vec<Blk>> {
    static C: OnceLock<Vec<Vec<Blk>>> = OnceLock::new();
    C.get_or_init(|| {
        let mut out = vec![];
        for name in ["01285", "01836", "02019"] {
            let dir = Path::new("/repo/test_data");
            let chunk = std::fs::read(dir.join(format!("{name}.chunk"))).expect("test chunk");
            let sec = std::fs::read(dir.join(format!("{name}.secondary"))).expect("test secondary");
            let mut offs: Vec<usize> = sec.chunks_exact(56).map(|e| u64::from_be_bytes(e[0..8].try_into().unwrap()) as usize).collect();
            // the open chunk of the test data (02019) lists more secondary entries than its chunk file holds
            offs.retain(|o| *o < chunk.len());
            offs.push(chunk.len());
            let mut blocks = vec![];
            for w in offs.windows(2) {
                let bytes = chunk[w[0]..w[1]].to_vec();
                let Ok(b) = MultiEraBlock::decode(&bytes) else { break };
                blocks.push(Blk { slot: b.slot(), hash: b.hash().to_vec(), number: b.number(), bytes });
            }
            out.push(blocks);
        }
        // a genesis-rooted chain from the block artefacts (genesis.block has slot 0 / number 0), so that the
        // Origin success path of read_blocks_from_point is reachable
        let mut g: Vec<Blk> = vec![];
        for name in ["genesis", "byron4", "byron5", "byron7", "byron3", "byron2", "byron6"] {
            if let Ok(txt) = std::fs::read_to_string(format!("/repo/test_data/{name}.block")) {
                if let Ok(bytes) = hex::decode(txt.trim()) {
                    if let Ok(b) = MultiEraBlock::decode(&bytes) {
                        g.push(Blk { slot: b.slot(), hash: b.hash().to_vec(), number: b.number(), bytes: bytes.clone() });
                    }
                }
            }
        }
        g.sort_by_key(|b| b.slot);
        if g.first().map(|b| b.slot == 0 && b.number == 0).unwrap_or(false) {
            out.push(g);
        }
        out
    })
}

pub struct Scratch {
    pub dir: PathBuf,
}

impl Scratch {
    pub fn new() -> Scratch {
        use std::sync::atomic::{AtomicU64, Ordering};
        static N: AtomicU64 = AtomicU64::new(0);
        let base = std::env::var("VERIF_SCRATCH").unwrap_or_else(|_| "/dev/shm".into());
        let dir = PathBuf::from(format!("{}/verif-{}/run-{}", base, std::process::id(), N.fetch_add(1, Ordering::Relaxed)));
        std::fs::create_dir_all(&dir).expect("scratch dir");
        Scratch { dir }
    }
}
impl Drop for Scratch {
    fn drop(&mut self) {
        let _ = std::fs::remove_dir_all(&self.dir);
    }
}

/// one chunk as the writer model sees it
#[derive(Clone)]
pub struct ChunkModel {
    pub number: u32,
    pub blocks: Vec<Blk>,
    /// relative slot of each block (strictly increasing)
    pub rel: Vec<u32>,
    /// trailing empty slots written when the chunk is finalised
    pub backfill: u32,
    pub finalised: bool,
}

impl ChunkModel {
    pub fn name(&self) -> String {
        format!("{:05}", self.number)
    }
    pub fn chunk_bytes(&self) -> Vec<u8> {
        self.blocks.iter().flat_map(|b| b.bytes.iter().copied()).collect()
    }
    pub fn secondary_bytes(&self) -> Vec<u8> {
        let mut out = vec![];
        let mut off = 0u64;
        for b in &self.blocks {
            out.extend(off.to_be_bytes());
            out.extend(0u16.to_be_bytes());
            out.extend(0u16.to_be_bytes());
            out.extend(0xdeadbeefu32.to_be_bytes());
            let mut h = b.hash.clone();
            h.resize(32, 0);
            out.extend(&h);
            out.extend(b.slot.to_be_bytes());
            off += b.bytes.len() as u64;
        }
        out
    }
    pub fn primary_bytes(&self) -> Vec<u8> {
        let mut out = vec![1u8];
        let last_rel = self.rel.last().copied().map(|x| x + 1).unwrap_or(0) + if self.finalised { self.backfill } else { 0 };
        // offsets for relative slots 0..=last_rel (one more than slots: the terminator)
        let mut filled = 0u32;
        let mut bi = 0;
        for slot in 0..=last_rel {
            out.extend((filled * 56).to_be_bytes());
            if bi < self.rel.len() && self.rel[bi] == slot {
                filled += 1;
                bi += 1;
            }
        }
        out
    }
    pub fn write(&self, dir: &Path) {
        let n = self.name();
        std::fs::write(dir.join(format!("{n}.chunk")), self.chunk_bytes()).unwrap();
        std::fs::write(dir.join(format!("{n}.secondary")), self.secondary_bytes()).unwrap();
        std::fs::write(dir.join(format!("{n}.primary")), self.primary_bytes()).unwrap();
    }
}

/// Seeded database: consecutive real blocks partitioned into chunks.
pub fn gen_db(ch: &mut Choices, max_chunks: u64, max_blocks: u64) -> Vec<ChunkModel> {
    let corp = corpus();
    let src = &corp[ch.draw("db.source", corp.len() as u64) as usize];
    let total = (1 + ch.draw("db.blocks", max_blocks)).min(src.len() as u64) as usize;
    let genesis_rooted = src[0].slot == 0 && ch.chance("db.from_start", 1, 3);
    let start = if genesis_rooted || ch.chance("db.start0", 1, 4) { 0 } else { ch.draw("db.start", (src.len() - total) as u64 + 1) as usize };
    let blocks = &src[start..start + total];
    let n_chunks = 1 + ch.draw("db.chunks", max_chunks) as usize;
    // boundaries (some chunks may be empty)
    let mut cuts: Vec<usize> = (0..n_chunks - 1).map(|_| ch.draw("db.cut", total as u64 + 1) as usize).collect();
    cuts.sort();
    cuts.push(total);
    let mut out = vec![];
    let mut number = ch.draw("db.first_number", 3000) as u32;
    let mut last = 0;
    for c in cuts {
        let bs: Vec<Blk> = blocks[last..c].to_vec();
        last = c;
        let mut rel = vec![];
        let mut r = ch.draw("db.rel0", 3) as u32;
        for _ in &bs {
            rel.push(r);
            r += 1 + if ch.chance("db.gap", 1, 4) { ch.draw("db.gap.len", 5) as u32 } else { 0 };
        }
        out.push(ChunkModel { number, blocks: bs, rel, backfill: ch.draw("db.backfill", 6) as u32, finalised: true });
        number += 1 + if ch.chance("db.number_gap", 1, 6) { ch.draw("db.number_gap.len", 3) as u32 } else { 0 };
    }
    if let Some(l) = out.last_mut() {
        l.finalised = false;
    }
    out
}

pub fn write_db(dir: &Path, db: &[ChunkModel]) {
    for c in db {
        c.write(dir);
    }
}

/// what the reader may rely on: all chunks but the highest-numbered one
pub fn immutable_blocks(db: &[ChunkModel]) -> Vec<Blk> {
    if db.is_empty() {
        return vec![];
    }
    db[..db.len() - 1].iter().flat_map(|c| c.blocks.iter().cloned()).collect()
}
