//! E2 mode B — the real `Manager` + `TcpInterface` (`TcpConnectionPool`) + `InitiatorBehavior`
//! on the paused tokio runtime, connected through hook H3 to simulated remote nodes that speak
//! over real `BearerReadHalf::read_full_msgs` / `BearerWriteHalf::write_message` on SimPipes.
//!
//! `Manager::poll_next` uses `futures::select!`, whose branch order comes from a thread-local
//! xorshift seeded by a process-global counter (not replayable). The two gate wrappers below
//! delegate everything to the real interface / behaviour but let only ONE of them report
//! readiness at a time; which one goes first is a seeded choice of the run, the other gets its
//! turn when the first is pending. The outcome of every `poll_next` is then independent of the
//! shuffle, and both branch orders stay reachable.

use super::adapter::*;
use crate::core::*;
use crate::engines::net1::*;
use crate::spec::proto::Agency;
use futures::stream::FusedStream;
use futures::Stream;
use pallas_network2::behavior::{AnyMessage, InitiatorBehavior, InitiatorCommand, InitiatorEvent, PromotionBehavior, PromotionConfig};
use pallas_network2::interface::TcpInterface;
use pallas_network2::protocol as p;
use pallas_network2::{Behavior, BehaviorOutput, Interface, InterfaceCommand, InterfaceEvent, Manager, PeerId};
use std::collections::HashMap;
use std::pin::Pin;
use std::sync::{Arc, Mutex};
use std::task::{Context, Poll};
use std::time::Duration;

const BEH_FIRST: u8 = 0;
const IFACE_FIRST: u8 = 1;
const BEH_SECOND: u8 = 2;
const IFACE_SECOND: u8 = 3;
const BOTH: u8 = 4;

/// Gate state. `select!` polls both wrappers once per pass in an order we do not control, so a
/// transition decided in pass k only takes effect from pass k+1 (`from`); until then `prev` rules.
/// Each wrapper counts its own polls since the last `arm`, which numbers the passes identically
/// for both, whatever the order inside a pass.
#[derive(Default)]
pub struct GateState {
    mode: u8,
    prev: u8,
    from: u64,
    epoch: u64,
}
pub type Gate = Arc<Mutex<GateState>>;

fn arm(g: &Gate, mode: u8) {
    let mut s = g.lock().unwrap();
    s.mode = mode;
    s.prev = mode;
    s.from = 0;
    s.epoch += 1;
}

struct Side {
    polls: u64,
    epoch: u64,
}
impl Side {
    /// returns (effective mode, pass number)
    fn enter(&mut self, g: &GateState) -> (u8, u64) {
        if self.epoch != g.epoch {
            self.epoch = g.epoch;
            self.polls = 0;
        }
        self.polls += 1;
        (if self.polls >= g.from { g.mode } else { g.prev }, self.polls)
    }
}

pub struct GatedBehavior<B> {
    inner: B,
    gate: Gate,
    side: Side,
    /// every message the real interface hands to the behaviour, per peer index, in order (C21 oracle)
    recv_log: MsgLog,
    /// peers whose connection the initiator gave up (Disconnect command) or lost (Error / Disconnected event)
    gone: Arc<Mutex<std::collections::HashSet<usize>>>,
}

/// (peer index, protocol, rendered message) in order of sending / receiving
pub type MsgLog = Arc<Mutex<Vec<(usize, usize, String)>>>;
pub struct GatedInterface<I> {
    inner: I,
    gate: Gate,
    side: Side,
}

impl<B: Behavior<Message = AnyMessage>> Stream for GatedBehavior<B> {
    type Item = BehaviorOutput<GatedBehavior<B>>;
    fn poll_next(mut self: Pin<&mut Self>, cx: &mut Context<'_>) -> Poll<Option<Self::Item>> {
        let this = &mut *self;
        let (m, k) = this.side.enter(&this.gate.lock().unwrap());
        if !matches!(m, BEH_FIRST | BEH_SECOND | BOTH) {
            return Poll::Pending;
        }
        match Pin::new(&mut this.inner).poll_next(cx) {
            Poll::Ready(Some(BehaviorOutput::InterfaceCommand(c))) => {
                if let InterfaceCommand::Disconnect(pid) = &c {
                    this.gone.lock().unwrap().insert((pid.port as usize).saturating_sub(3000));
                }
                Poll::Ready(Some(BehaviorOutput::InterfaceCommand(c)))
            }
            Poll::Ready(Some(BehaviorOutput::ExternalEvent(e))) => Poll::Ready(Some(BehaviorOutput::ExternalEvent(e))),
            Poll::Ready(None) => Poll::Ready(None),
            Poll::Pending => {
                let mut g = this.gate.lock().unwrap();
                match m {
                    BEH_FIRST => {
                        *g = GateState { mode: IFACE_SECOND, prev: BEH_FIRST, from: k + 1, epoch: g.epoch };
                        cx.waker().wake_by_ref();
                    }
                    BEH_SECOND => {
                        // one more pass with both sides open: a wake-up the other side received while it was
                        // gated (a self-waking stalled read, say) has been consumed by this pass
                        *g = GateState { mode: BOTH, prev: BEH_SECOND, from: k + 1, epoch: g.epoch };
                        cx.waker().wake_by_ref();
                    }
                    _ => {}
                }
                Poll::Pending
            }
        }
    }
}
impl<B: Behavior<Message = AnyMessage>> FusedStream for GatedBehavior<B> {
    fn is_terminated(&self) -> bool {
        false
    }
}
impl<B: Behavior<Message = AnyMessage>> Behavior for GatedBehavior<B> {
    type Event = B::Event;
    type Command = B::Command;
    type PeerState = B::PeerState;
    type Message = B::Message;
    fn handle_io(&mut self, event: InterfaceEvent<Self::Message>) {
        if let InterfaceEvent::Error(pid, _) | InterfaceEvent::Disconnected(pid) = &event {
            self.gone.lock().unwrap().insert((pid.port as usize).saturating_sub(3000));
        }
        if let InterfaceEvent::Recv(pid, msgs) = &event {
            let idx = (pid.port as usize).saturating_sub(3000);
            let mut l = self.recv_log.lock().unwrap();
            for m in msgs {
                l.push((idx, kind(m).0, render2(m)));
            }
        }
        self.inner.handle_io(event)
    }
    fn execute(&mut self, cmd: Self::Command) {
        self.inner.execute(cmd)
    }
}

impl<I: Interface<AnyMessage>> Stream for GatedInterface<I> {
    type Item = InterfaceEvent<AnyMessage>;
    fn poll_next(mut self: Pin<&mut Self>, cx: &mut Context<'_>) -> Poll<Option<Self::Item>> {
        let this = &mut *self;
        let (m, k) = this.side.enter(&this.gate.lock().unwrap());
        if !matches!(m, IFACE_FIRST | IFACE_SECOND | BOTH) {
            return Poll::Pending;
        }
        match Pin::new(&mut this.inner).poll_next(cx) {
            Poll::Ready(x) => Poll::Ready(x),
            Poll::Pending => {
                let mut g = this.gate.lock().unwrap();
                match m {
                    IFACE_FIRST => {
                        *g = GateState { mode: BEH_SECOND, prev: IFACE_FIRST, from: k + 1, epoch: g.epoch };
                        cx.waker().wake_by_ref();
                    }
                    IFACE_SECOND => {
                        *g = GateState { mode: BOTH, prev: IFACE_SECOND, from: k + 1, epoch: g.epoch };
                        cx.waker().wake_by_ref();
                    }
                    _ => {}
                }
                Poll::Pending
            }
        }
    }
}
impl<I: Interface<AnyMessage>> FusedStream for GatedInterface<I> {
    fn is_terminated(&self) -> bool {
        false
    }
}
impl<I: Interface<AnyMessage>> Interface<AnyMessage> for GatedInterface<I> {
    fn dispatch(&mut self, cmd: InterfaceCommand<AnyMessage>) {
        self.inner.dispatch(cmd)
    }
}

/// a conformant responder's legal move in `proto` (server agency), data taken from the request
fn conformant_reply(ch: &mut Choices, proto: usize, s: u8, req: &Option<AnyMessage>, bf_left: &mut u64, npeers: u64) -> Option<AnyMessage> {
    Some(match proto {
        HS => {
            let Some(AnyMessage::Handshake(p::handshake::Message::Propose(t))) = req else { return None };
            let mut vs: Vec<u64> = t.values.keys().copied().collect();
            vs.sort();
            if vs.is_empty() {
                return Some(AnyMessage::Handshake(p::handshake::Message::Refuse(p::handshake::RefuseReason::VersionMismatch(vec![13]))));
            }
            match ch.draw("hs.reply", 10) {
                0 => AnyMessage::Handshake(p::handshake::Message::Refuse(p::handshake::RefuseReason::VersionMismatch(vec![7, 8]))),
                1 => AnyMessage::Handshake(p::handshake::Message::QueryReply(t.clone())),
                _ => {
                    let v = vs[vs.len() - 1 - ch.draw("hs.pick", vs.len() as u64) as usize];
                    AnyMessage::Handshake(p::handshake::Message::Accept(v, p::handshake::n2n::VersionData::new(p::MAINNET_MAGIC, false, Some(1), Some(false))))
                }
            }
        }
        KA => {
            let Some(AnyMessage::KeepAlive(p::keepalive::Message::KeepAlive(c))) = req else { return None };
            AnyMessage::KeepAlive(p::keepalive::Message::ResponseKeepAlive(*c))
        }
        CS => {
            use crate::spec::proto::cs;
            match s {
                cs::INTERSECT => {
                    if ch.chance("cs.notfound", 1, 10) {
                        AnyMessage::ChainSync(p::chainsync::Message::IntersectNotFound(gen_tip(ch)))
                    } else {
                        AnyMessage::ChainSync(p::chainsync::Message::IntersectFound(gen_point(ch), gen_tip(ch)))
                    }
                }
                cs::CAN_AWAIT if ch.chance("cs.await", 1, 4) => AnyMessage::ChainSync(p::chainsync::Message::AwaitReply),
                _ => {
                    if ch.chance("cs.rollback", 1, 5) {
                        AnyMessage::ChainSync(p::chainsync::Message::RollBackward(gen_point(ch), gen_tip(ch)))
                    } else {
                        AnyMessage::ChainSync(p::chainsync::Message::RollForward(gen_header(ch), gen_tip(ch)))
                    }
                }
            }
        }
        PS => {
            let Some(AnyMessage::PeerSharing(p::peersharing::Message::ShareRequest(n))) = req else { return None };
            let k = ch.draw("ps.count", (*n as u64).min(4) + 1);
            let addrs = (0..k)
                .map(|_| {
                    let j = ch.draw("ps.addr", npeers + 2) as u32;
                    p::peersharing::PeerAddress::V4(std::net::Ipv4Addr::from_bits(0x0a000001 + j), 3000 + j as u16)
                })
                .collect();
            AnyMessage::PeerSharing(p::peersharing::Message::SharePeers(addrs))
        }
        BF => {
            use crate::spec::proto::bf;
            if s == bf::BUSY {
                if ch.chance("bf.noblocks", 1, 4) {
                    AnyMessage::BlockFetch(p::blockfetch::Message::NoBlocks)
                } else {
                    *bf_left = ch.draw("bf.blocks", 4);
                    AnyMessage::BlockFetch(p::blockfetch::Message::StartBatch)
                }
            } else if *bf_left > 0 {
                *bf_left -= 1;
                AnyMessage::BlockFetch(p::blockfetch::Message::Block(gen_blob(ch, 70_000)))
            } else {
                AnyMessage::BlockFetch(p::blockfetch::Message::BatchDone)
            }
        }
        LN => gen_msg(LN, 1 + ch.draw("ln.kind", 4) as u8, ch),
        LF => match req {
            Some(AnyMessage::LeiosFetch(p::leiosfetch::Message::BlockRequest(_))) => AnyMessage::LeiosFetch(p::leiosfetch::Message::Block(gen_anycbor(ch))),
            Some(AnyMessage::LeiosFetch(p::leiosfetch::Message::BlockTxsRequest(pt, bm))) => {
                AnyMessage::LeiosFetch(p::leiosfetch::Message::BlockTxs { point: pt.clone(), bitmaps: bm.clone(), txs: (0..ch.draw("lf.n", 3)).map(|_| gen_anycbor(ch)).collect() })
            }
            _ => return None,
        },
        _ => return None, // tx-submission: the initiator never sends Init, so the server never has agency
    })
}

type Verdict = Arc<Mutex<Option<Violation>>>;

/// one simulated remote node serving one connection
/// What the simulated node does beyond answering: `cuts` re-segments every reply at seeded offsets
/// (and may slip another protocol's reply between two pieces); `sent` logs every reply it wrote completely.
#[derive(Clone)]
pub struct NodeOpts {
    pub cuts: bool,
    pub sent: MsgLog,
    /// connections opened so far, per peer index
    pub conns: Arc<Mutex<HashMap<usize, u64>>>,
    /// peers one of whose node tasks has ended (either side closed the connection)
    pub ended: Arc<Mutex<std::collections::HashSet<usize>>>,
}

/// writes one message as raw segments cut at seeded offsets; returns false when the connection is gone
async fn write_cut(sh: &Sh, wr: &mut pallas_network2::bearer::BearerWriteHalf, m: AnyMessage, ts: &mut u32, between: Option<AnyMessage>, idx: usize, sent: &MsgLog) -> bool {
    use pallas_network2::Message as _;
    let entry = (idx, kind(&m).0, render2(&m));
    let (channel, chunks) = m.into_chunks();
    let mut between = between;
    for chunk in chunks {
        let n = chunk.len();
        let mut cuts: Vec<usize> = vec![];
        if n > 1 {
            match draw(sh, "node.cut.style", 4) {
                0 => {}
                1 => cuts.push(1 + draw(sh, "node.cut.at", n as u64 - 1) as usize),
                2 => cuts.extend([1, n - 1]),
                _ => {
                    for _ in 0..(1 + draw(sh, "node.cut.k", 4)) {
                        cuts.push(1 + draw(sh, "node.cut.at", n as u64 - 1) as usize);
                    }
                }
            }
        }
        cuts.sort();
        cuts.dedup();
        inc(sh, "probe.node_reply_cut_points");
        let mut prev = 0;
        cuts.push(n);
        for c in cuts {
            if c <= prev {
                continue;
            }
            *ts += 1;
            if wr.write_segment(channel | p::PROTOCOL_SERVER, *ts, &chunk[prev..c]).await.is_err() {
                return false;
            }
            prev = c;
            if c < n {
                // between two pieces: a pause (the pool re-arms its read with the partial map) and
                // possibly a whole message of another protocol
                if let Some(b) = between.take() {
                    inc(sh, "probe.node_reply_interleaved");
                    *ts += 1;
                    let e2 = (idx, kind(&b).0, render2(&b));
                    if wr.write_message(b, *ts, p::PROTOCOL_SERVER).await.is_err() {
                        return false;
                    }
                    sent.lock().unwrap().push(e2);
                }
                if chance(sh, "node.cut.pause", 1, 2) {
                    let us = 1 + draw(sh, "node.cut.pause.us", 5_000);
                    tokio::time::sleep(Duration::from_micros(us)).await;
                }
            }
        }
    }
    sent.lock().unwrap().push(entry);
    if let Some(b) = between.take() {
        *ts += 1;
        let e2 = (idx, kind(&b).0, render2(&b));
        if wr.write_message(b, *ts, p::PROTOCOL_SERVER).await.is_err() {
            return false;
        }
        sent.lock().unwrap().push(e2);
    }
    true
}

async fn node(sh: Sh, idx: usize, npeers: u64, rd: pallas_network2::bearer::BearerReadHalf, wr: pallas_network2::bearer::BearerWriteHalf, verdict: Verdict, opts: NodeOpts) {
    let ended = opts.ended.clone();
    node_inner(sh.clone(), idx, npeers, rd, wr, verdict, opts).await;
    ev(&sh, "node.exit", &[idx as u64]);
    ended.lock().unwrap().insert(idx);
}

async fn node_inner(sh: Sh, idx: usize, npeers: u64, mut rd: pallas_network2::bearer::BearerReadHalf, mut wr: pallas_network2::bearer::BearerWriteHalf, verdict: Verdict, opts: NodeOpts) {
    let mut spec = [0u8; NPROTO];
    let mut last_req: [Option<AnyMessage>; NPROTO] = Default::default();
    let mut bf_left = 0u64;
    let mut partial: HashMap<u16, Vec<u8>> = HashMap::new();
    let mut ts = 0u32;
    loop {
        let msgs = match rd.read_full_msgs::<AnyMessage>(&mut partial).await {
            Ok(m) => m,
            Err(_) => return, // initiator went away
        };
        for m in msgs {
            let (proto, k) = kind(&m);
            let sp = SPECS[proto];
            let s = spec[proto];
            ev(&sh, "node.recv", &[idx as u64, proto as u64, k as u64]);
            inc(&sh, "probe.wire_messages_judged");
            match (sp.agency(s) == Agency::Client).then(|| sp.next(s, k)).flatten() {
                Some(n) => spec[proto] = n,
                None => {
                    let mut v = verdict.lock().unwrap();
                    if v.is_none() {
                        *v = Some(Violation::new(
                            "observed_on_wire",
                            format!("{}:{}+{}", sp.name, sp.sname(s), sp.mname(k)),
                            format!("the simulated node {idx} read {} {} off the wire while its {} state was {} (agency {:?})", sp.name, sp.mname(k), sp.name, sp.sname(s), sp.agency(s)),
                        ));
                    }
                    return; // a conformant responder hangs up
                }
            }
            last_req[proto] = Some(m);
        }
        // answer on every protocol where we now hold agency, after a seeded latency; chain-sync may
        // go through AwaitReply first, block-fetch streams its batch
        loop {
            let cands: Vec<usize> = (0..NPROTO).filter(|q| *q != TS && SPECS[*q].agency(spec[*q]) == Agency::Server).collect();
            if cands.is_empty() {
                break;
            }
            let proto = cands[draw(&sh, "node.proto", cands.len() as u64) as usize];
            let us = draw(&sh, "node.latency.us", 30_000);
            tokio::time::sleep(Duration::from_micros(us)).await;
            let reply = {
                let mut g = sh.lock().unwrap();
                conformant_reply(&mut g.ch, proto, spec[proto], &last_req[proto], &mut bf_left, npeers)
            };
            let Some(r) = reply else { break };
            let (pp, kk) = kind(&r);
            if let Some(n) = SPECS[pp].next(spec[pp], kk) {
                spec[pp] = n;
            }
            ev(&sh, "node.reply", &[idx as u64, pp as u64, kk as u64]);
            inc(&sh, "probe.node_replies");
            if opts.cuts {
                // a second reply, of another protocol, to slip between two pieces of this one
                let mut between = None;
                let others: Vec<usize> = (0..NPROTO).filter(|q| *q != TS && *q != pp && SPECS[*q].agency(spec[*q]) == Agency::Server).collect();
                if !others.is_empty() && chance(&sh, "node.interleave", 1, 2) {
                    let q = others[draw(&sh, "node.interleave.proto", others.len() as u64) as usize];
                    let r2 = {
                        let mut g = sh.lock().unwrap();
                        conformant_reply(&mut g.ch, q, spec[q], &last_req[q], &mut bf_left, npeers)
                    };
                    if let Some(r2) = r2 {
                        let (p2, k2) = kind(&r2);
                        if let Some(n) = SPECS[p2].next(spec[p2], k2) {
                            spec[p2] = n;
                        }
                        ev(&sh, "node.reply", &[idx as u64, p2 as u64, k2 as u64]);
                        between = Some(r2);
                    }
                }
                if !write_cut(&sh, &mut wr, r, &mut ts, between, idx, &opts.sent).await {
                    return;
                }
            } else {
                ts += 1;
                if wr.write_message(r, ts, p::PROTOCOL_SERVER).await.is_err() {
                    return;
                }
            }
            if chance(&sh, "node.hangup", 1, 200) {
                inc(&sh, "fault.node_hangs_up");
                return; // dropping both halves: EOF / broken pipe on the initiator side
            }
        }
    }
}

pub struct RealManager {
    pub name: &'static str,
    pub faults: bool,
    /// C21: the nodes re-segment their replies and the messages the behaviour is handed are compared
    /// with the messages the nodes wrote
    pub cuts: bool,
}

impl Scenario for RealManager {
    fn name(&self) -> &'static str {
        self.name
    }
    fn run(&self, cx: &mut RunCx) -> Result<(), Violation> {
        let npeers = cx.ch.range("peers", 1, 3);
        let steps = cx.ch.range("steps", 1, 40);
        let leios = cx.ch.chance("leios", 1, 2);
        let faults = self.faults;
        let cuts = self.cuts;
        let pcfg = PipeCfg {
            stall: (cx.ch.draw("cfg.stall", 3), 8),
            short: (cx.ch.draw("cfg.short", 4), 4),
            delay: (if faults { cx.ch.draw("cfg.delay", 3) } else { 0 }, 16),
            capacity: *cx.ch.pick("cfg.capacity", &[1usize << 20, 70_000, 512]),
            ..Default::default()
        };
        let mut versions = vec![13u64];
        if leios {
            versions.push(15);
        }
        let table = p::handshake::n2n::VersionTable { values: versions.iter().map(|v| (*v, p::handshake::n2n::VersionData::new(p::MAINNET_MAGIC, false, Some(1), Some(false)))).collect() };
        cx.tr.ev("setup", &[npeers, steps, leios as u64]);
        run_sim(cx, |sh| async move {
            let verdict: Verdict = Arc::new(Mutex::new(None));
            // ---- hook H3: outbound connections get in-memory bearers and a simulated node behind them
            let nopts = NodeOpts { cuts, sent: Arc::new(Mutex::new(vec![])), conns: Arc::new(Mutex::new(HashMap::new())), ended: Arc::new(Mutex::new(Default::default())) };
            let recv_log: MsgLog = Arc::new(Mutex::new(vec![]));
            let gone: Arc<Mutex<std::collections::HashSet<usize>>> = Arc::new(Mutex::new(Default::default()));
            let nopts_c = nopts.clone();
            let (sh_c, verdict_c, pcfg_c) = (sh.clone(), verdict.clone(), pcfg.clone());
            pallas_network2::interface::verif_hook::set_connector(Some(Box::new(move |pid: &PeerId| {
                let idx = (pid.port as usize).saturating_sub(3000);
                if faults && chance(&sh_c, "connect.refused", 1, 8) {
                    inc(&sh_c, "fault.connect_refused");
                    return Some(Err(std::io::ErrorKind::ConnectionRefused.into()));
                }
                let (w_i2n, r_i2n) = pipe("i2n", &sh_c, &pcfg_c);
                let (w_n2i, r_n2i) = pipe("n2i", &sh_c, &pcfg_c);
                let (rd, wr) = bearer2(r_i2n, w_n2i).into_split();
                *nopts_c.conns.lock().unwrap().entry(idx).or_insert(0) += 1;
                ev(&sh_c, "conn.open", &[idx as u64]);
                tokio::spawn(node(sh_c.clone(), idx, npeers, rd, wr, verdict_c.clone(), nopts_c.clone()));
                inc(&sh_c, "probe.connections_opened");
                Some(Ok(bearer2(r_n2i, w_i2n)))
            })));
            let gate: Gate = Arc::new(Mutex::new(GateState { mode: BOTH, prev: BOTH, from: 0, epoch: 0 }));
            let beh = InitiatorBehavior {
                promotion: PromotionBehavior::new(PromotionConfig { max_peers: 10, max_warm_peers: 5, max_hot_peers: 3, max_error_count: 1 }),
                handshake: pallas_network2::behavior::HandshakeBehavior::new(pallas_network2::behavior::Config { supported_version: table }),
                ..Default::default()
            };
            let mut manager = Manager::new(GatedInterface { inner: TcpInterface::<AnyMessage>::new(), gate: gate.clone(), side: Side { polls: 0, epoch: 0 } }, GatedBehavior { inner: beh, gate: gate.clone(), side: Side { polls: 0, epoch: 0 }, recv_log: recv_log.clone(), gone: gone.clone() });
            let quiet = Duration::from_millis(60);
            let mut result = Ok(());
            'run: for _ in 0..steps {
                // ---- one application command
                let i = draw(&sh, "cmd.peer", npeers) as usize;
                let id = super::sim::pid(i);
                let cmd = {
                    let mut g = sh.lock().unwrap();
                    match g.ch.draw("cmd.kind", 12) {
                        0 | 1 => InitiatorCommand::IncludePeer(id),
                        2 => InitiatorCommand::StartSync((0..g.ch.draw("sync.points", 3)).map(|_| gen_point(&mut g.ch)).collect()),
                        3 => InitiatorCommand::RequestBlocks((gen_point(&mut g.ch), gen_point(&mut g.ch))),
                        4 if leios => InitiatorCommand::FetchEb(id, gen_point(&mut g.ch)),
                        5 if leios => InitiatorCommand::FetchEbTxs(id, gen_point(&mut g.ch), gen_bitmaps(&mut g.ch)),
                        6 if faults => InitiatorCommand::DemotePeer(id),
                        _ => InitiatorCommand::Housekeeping,
                    }
                };
                ev(&sh, "app.cmd", &[hash_str(&format!("{:?}", std::mem::discriminant(&cmd))) % 1000]);
                inc(&sh, "probe.app_commands");
                manager.execute(cmd);
                // ---- run the real manager until nothing happens for `quiet` simulated time
                for _ in 0..2000 {
                    arm(&gate, if chance(&sh, "select.iface_first", 1, 2) { IFACE_FIRST } else { BEH_FIRST });
                    match tokio::time::timeout(quiet, manager.poll_next()).await {
                        Ok(Some(e)) => {
                            inc(&sh, "probe.external_events");
                            match e {
                                InitiatorEvent::PeerInitialized(..) => inc(&sh, "probe.peer_initialized"),
                                InitiatorEvent::BlockHeaderReceived(id, ..) | InitiatorEvent::RollbackReceived(id, ..) | InitiatorEvent::IntersectionFound(id, ..) => {
                                    inc(&sh, "probe.chainsync_events");
                                    if chance(&sh, "app.continue_sync", 3, 4) {
                                        manager.execute(InitiatorCommand::ContinueSync(id));
                                    }
                                }
                                InitiatorEvent::BlockBodyReceived(..) => inc(&sh, "probe.block_bodies"),
                                _ => {}
                            }
                        }
                        Ok(None) => {}
                        Err(_) => break, // quiescent
                    }
                    if verdict.lock().unwrap().is_some() {
                        break 'run;
                    }
                }
            }
            if let Some(v) = verdict.lock().unwrap().take() {
                result = Err(v);
            }
            if cuts && result.is_ok() {
                // drain: let the manager run until it has been quiet for a long stretch, so that every
                // reply a node wrote completely has reached the behaviour
                for _ in 0..4000 {
                    // (never BOTH: with both sides ready in one pass select!'s unseeded shuffle would decide)
                    arm(&gate, if chance(&sh, "select.iface_first", 1, 2) { IFACE_FIRST } else { BEH_FIRST });
                    match tokio::time::timeout(Duration::from_millis(400), manager.poll_next()).await {
                        Err(_) => {
                            ev(&sh, "drain.quiet", &[]);
                            break;
                        }
                        Ok(x) => ev(&sh, "drain.event", &[x.is_some() as u64]),
                    }
                }
                let sent = nopts.sent.lock().unwrap().clone();
                let got = recv_log.lock().unwrap().clone();
                let conns = nopts.conns.lock().unwrap().clone();
                'cmp: for idx in 0..npeers as usize {
                    for proto in 0..NPROTO {
                        let s: Vec<&String> = sent.iter().filter(|e| e.0 == idx && e.1 == proto).map(|e| &e.2).collect();
                        let g: Vec<&String> = got.iter().filter(|e| e.0 == idx && e.1 == proto).map(|e| &e.2).collect();
                        inc(&sh, "probe.modeb_streams_compared");
                        // in order, nothing invented, nothing twice: what arrived is a subsequence of what was written
                        let mut it = s.iter();
                        if let Some(bad) = g.iter().position(|x| !it.any(|y| y == x)) {
                            result = Err(Violation::new("wire", format!("modeb-{}:not-what-was-sent", SPECS[proto].name), format!("peer {idx} {}: message #{bad} handed to the behaviour ({}) is not the next one the node wrote ({} written, {} received)", SPECS[proto].name, g[bad], s.len(), g.len())));
                            break 'cmp;
                        }
                        // a connection that never went away delivers everything that was written completely
                        let intact = conns.get(&idx).copied().unwrap_or(0) == 1 && !gone.lock().unwrap().contains(&idx) && !nopts.ended.lock().unwrap().contains(&idx);
                        if intact && g.len() != s.len() {
                            result = Err(Violation::new("wire", format!("modeb-{}:written-but-never-delivered", SPECS[proto].name), format!("peer {idx} {}: the node wrote {} messages completely, the behaviour was handed {} although the connection stayed up (no Disconnect command, no Error / Disconnected event, the node still serving) and the manager went quiet", SPECS[proto].name, s.len(), g.len())));
                            break 'cmp;
                        }
                        if !g.is_empty() {
                            inc(&sh, "probe.modeb_messages_compared");
                        }
                    }
                }
            }
            pallas_network2::interface::verif_hook::set_connector(None);
            drop(manager);
            sh.lock().unwrap().st.progress = true;
            result
        })
    }
}
