//! Adapter between the spec automata and pallas-network2's message/state types.

use crate::core::Choices;
use crate::spec::proto::{self as sp, Spec};
use pallas_codec::utils::AnyCbor;
use pallas_network2::behavior::AnyMessage;
use pallas_network2::protocol as p;
use std::collections::HashMap;

pub const HS: usize = 0;
pub const KA: usize = 1;
pub const CS: usize = 2;
pub const PS: usize = 3;
pub const BF: usize = 4;
pub const TS: usize = 5;
pub const LN: usize = 6;
pub const LF: usize = 7;
pub const NPROTO: usize = 8;

pub static SPECS_CHANNEL: [u16; NPROTO] = [0, 8, 2, 10, 3, 4, 18, 19];

pub static SPECS: [&Spec; NPROTO] = [
    &sp::HANDSHAKE,
    &sp::KEEPALIVE,
    &sp::CHAINSYNC,
    &sp::PEERSHARING,
    &sp::BLOCKFETCH,
    &sp::TXSUBMISSION,
    &sp::LEIOSNOTIFY,
    &sp::LEIOSFETCH,
];

/// (protocol index, spec message kind)
pub fn kind(m: &AnyMessage) -> (usize, u8) {
    use p::*;
    match m {
        AnyMessage::Handshake(m) => (
            HS,
            match m {
                handshake::Message::Propose(_) => 0,
                handshake::Message::Accept(..) => 1,
                handshake::Message::Refuse(_) => 2,
                handshake::Message::QueryReply(_) => 3,
            },
        ),
        AnyMessage::KeepAlive(m) => (
            KA,
            match m {
                keepalive::Message::KeepAlive(_) => 0,
                keepalive::Message::ResponseKeepAlive(_) => 1,
                keepalive::Message::Done => 2,
            },
        ),
        AnyMessage::ChainSync(m) => (
            CS,
            match m {
                chainsync::Message::RequestNext => 0,
                chainsync::Message::AwaitReply => 1,
                chainsync::Message::RollForward(..) => 2,
                chainsync::Message::RollBackward(..) => 3,
                chainsync::Message::FindIntersect(_) => 4,
                chainsync::Message::IntersectFound(..) => 5,
                chainsync::Message::IntersectNotFound(_) => 6,
                chainsync::Message::Done => 7,
            },
        ),
        AnyMessage::PeerSharing(m) => (
            PS,
            match m {
                peersharing::Message::ShareRequest(_) => 0,
                peersharing::Message::SharePeers(_) => 1,
                peersharing::Message::Done => 2,
            },
        ),
        AnyMessage::BlockFetch(m) => (
            BF,
            match m {
                blockfetch::Message::RequestRange(_) => 0,
                blockfetch::Message::ClientDone => 1,
                blockfetch::Message::StartBatch => 2,
                blockfetch::Message::NoBlocks => 3,
                blockfetch::Message::Block(_) => 4,
                blockfetch::Message::BatchDone => 5,
            },
        ),
        AnyMessage::TxSubmission(m) => (
            TS,
            match m {
                txsubmission::Message::Init => 0,
                txsubmission::Message::RequestTxIds(true, ..) => 1,
                txsubmission::Message::RequestTxIds(false, ..) => 2,
                txsubmission::Message::ReplyTxIds(_) => 3,
                txsubmission::Message::RequestTxs(_) => 4,
                txsubmission::Message::ReplyTxs(_) => 5,
                txsubmission::Message::Done => 6,
            },
        ),
        AnyMessage::LeiosNotify(m) => (
            LN,
            match m {
                leiosnotify::Message::RequestNext => 0,
                leiosnotify::Message::BlockAnnouncement(_) => 1,
                leiosnotify::Message::BlockOffer(..) => 2,
                leiosnotify::Message::BlockTxsOffer(_) => 3,
                leiosnotify::Message::Votes(_) => 4,
                leiosnotify::Message::Done => 5,
            },
        ),
        AnyMessage::LeiosFetch(m) => (
            LF,
            match m {
                leiosfetch::Message::BlockRequest(_) => 0,
                leiosfetch::Message::Block(_) => 1,
                leiosfetch::Message::BlockTxsRequest(..) => 2,
                leiosfetch::Message::BlockTxs { .. } => 3,
                leiosfetch::Message::Done => 4,
            },
        ),
    }
}

// ---------------------------------------------------------------- generators

pub fn gen_point(ch: &mut Choices) -> p::Point {
    if ch.chance("point.origin", 1, 6) {
        p::Point::Origin
    } else {
        let n = *ch.pick("point.hashlen", &[32usize, 32, 32, 0, 1, 28]);
        p::Point::Specific(gen_u64(ch), ch.bytes("point.hash", n))
    }
}

pub fn gen_u64(ch: &mut Choices) -> u64 {
    match ch.draw("u64.class", 6) {
        0 => ch.draw("u64.small", 24),
        1 => ch.draw("u64.byte", 256),
        2 => ch.draw("u64.u16", 1 << 16),
        3 => ch.draw("u64.u32", 1 << 32),
        4 => u64::MAX - ch.draw("u64.top", 3),
        _ => ch.u64("u64.any"),
    }
}

pub fn gen_tip(ch: &mut Choices) -> p::chainsync::Tip {
    p::chainsync::Tip(gen_point(ch), gen_u64(ch))
}

pub fn gen_blob(ch: &mut Choices, max: usize) -> Vec<u8> {
    let n = match ch.draw("blob.class", 5) {
        0 => 0,
        1 => 1 + ch.draw("blob.small", 23) as usize,
        2 => 24 + ch.draw("blob.mid", 300) as usize,
        _ => ch.draw("blob.any", max as u64 + 1) as usize,
    };
    ch.bytes("blob", n.min(max))
}

/// A block-sized body (60..140 kB, more than one mux segment can carry), expanded from one drawn seed
/// so that it costs two tape entries.
pub fn big_blob(ch: &mut Choices) -> Vec<u8> {
    let n = 60_000 + ch.draw("blob.big.len", 80_001) as usize;
    let mut r = crate::core::Rng::new(ch.u64("blob.big.seed"));
    let mut v = Vec::with_capacity(n + 8);
    while v.len() < n {
        v.extend(r.next().to_le_bytes());
    }
    v.truncate(n);
    v
}

/// a small well-formed CBOR item (AnyCbor fields carry verbatim CBOR)
pub fn gen_anycbor(ch: &mut Choices) -> AnyCbor {
    let mut out = vec![];
    fn item(ch: &mut Choices, out: &mut Vec<u8>, depth: u32) {
        match ch.draw("cbor.kind", if depth > 2 { 4 } else { 7 }) {
            0 => out.push(ch.draw("cbor.uint", 24) as u8),
            1 => {
                out.push(0x19);
                out.extend((ch.draw("cbor.u16", 1 << 16) as u16).to_be_bytes());
            }
            2 => {
                let n = ch.draw("cbor.bytes.len", 24) as usize;
                out.push(0x40 | n as u8);
                out.extend(ch.bytes("cbor.bytes", n));
            }
            3 => out.push(0xf6),
            4 => {
                let n = ch.draw("cbor.arr.len", 4);
                out.push(0x80 | n as u8);
                for _ in 0..n {
                    item(ch, out, depth + 1);
                }
            }
            5 => {
                out.push(0x9f);
                let n = ch.draw("cbor.iarr.len", 3);
                for _ in 0..n {
                    item(ch, out, depth + 1);
                }
                out.push(0xff);
            }
            _ => {
                let n = ch.draw("cbor.map.len", 3);
                out.push(0xa0 | n as u8);
                for _ in 0..n {
                    out.push(ch.draw("cbor.map.key", 24) as u8);
                    item(ch, out, depth + 1);
                }
            }
        }
    }
    item(ch, &mut out, 0);
    AnyCbor::from_raw_bytes(out)
}

pub fn gen_version_data(ch: &mut Choices, magic_pool: &[u64]) -> p::handshake::n2n::VersionData {
    let magic = *ch.pick("vd.magic", magic_pool);
    let iod = ch.draw("vd.iod", 2) == 1;
    // only wire-representable combinations: both optional fields or neither
    if ch.draw("vd.long", 2) == 1 {
        p::handshake::n2n::VersionData::new(magic, iod, Some(ch.draw("vd.ps", 3) as u8), Some(ch.draw("vd.query", 2) == 1))
    } else {
        p::handshake::n2n::VersionData::new(magic, iod, None, None)
    }
}

pub fn gen_version_table(ch: &mut Choices, max: u64, magic_pool: &[u64]) -> p::handshake::n2n::VersionTable {
    let n = ch.draw("vt.len", max + 1);
    let mut values = HashMap::new();
    for _ in 0..n {
        let v = 4 + ch.draw("vt.ver", 14);
        values.insert(v, gen_version_data(ch, magic_pool));
    }
    p::handshake::n2n::VersionTable { values }
}

pub fn gen_peer_addr(ch: &mut Choices) -> p::peersharing::PeerAddress {
    let port = ch.draw("addr.port", 1 << 16) as u16;
    if ch.draw("addr.v6", 2) == 1 {
        // special address classes as well as random ones: unspecified, loopback, v4-mapped, v4-compatible, link-local
        let (hi, lo): (u128, u128) = match ch.draw("addr.v6.class", 7) {
            0 => (0, 0),
            1 => (0, 1),
            2 => (0, 0xffff_0000_0000 | ch.draw("addr.v6.mapped", 1 << 32) as u128),
            3 => (0, ch.draw("addr.v6.compat", 1 << 32) as u128),
            4 => (0xfe80_0000_0000_0000, ch.u64("addr.v6.lo") as u128),
            _ => (ch.u64("addr.v6.hi") as u128, ch.u64("addr.v6.lo") as u128),
        };
        p::peersharing::PeerAddress::V6(std::net::Ipv6Addr::from_bits((hi << 64) | lo), port)
    } else {
        p::peersharing::PeerAddress::V4(std::net::Ipv4Addr::from_bits(match ch.draw("addr.v4.class", 4) { 0 => 0, 1 => u32::MAX, 2 => 0x7f000001, _ => ch.draw("addr.v4", 1 << 32) as u32 }), port)
    }
}

/// Mostly short lists; one in sixteen is a long run of distinct addresses (up to 300, more than any
/// amount a ShareRequest can ask for and more than the discovery high-water mark).
pub fn gen_peer_list(ch: &mut Choices) -> Vec<p::peersharing::PeerAddress> {
    if ch.draw("ps.peers.big", 16) == 15 {
        let n = 1 + ch.draw("ps.peers.biglen", 300) as u32;
        let base = ch.draw("ps.peers.base", 1 << 24) as u32;
        let port = ch.draw("addr.port", 1 << 16) as u16;
        (0..n).map(|i| p::peersharing::PeerAddress::V4(std::net::Ipv4Addr::from_bits((base << 8).wrapping_add(i)), port)).collect()
    } else {
        (0..ch.draw("ps.peers.len", 5)).map(|_| gen_peer_addr(ch)).collect()
    }
}

pub fn gen_bitmaps(ch: &mut Choices) -> p::leiosfetch::Bitmaps {
    let n = ch.draw("bm.len", 4);
    let mut m = std::collections::BTreeMap::new();
    for _ in 0..n {
        m.insert(ch.draw("bm.key", 1 << 16) as u16, gen_u64(ch));
    }
    p::leiosfetch::Bitmaps(m)
}

pub fn gen_header(ch: &mut Choices) -> p::chainsync::HeaderContent {
    let variant = ch.draw("hdr.variant", 8) as u8;
    p::chainsync::HeaderContent {
        variant,
        byron_prefix: if variant == 0 { Some((ch.draw("hdr.bp.a", 256) as u8, gen_u64(ch))) } else { None },
        cbor: gen_blob(ch, 2000),
    }
}

pub fn gen_era_txid(ch: &mut Choices) -> p::txsubmission::EraTxId {
    p::txsubmission::EraTxId(ch.draw("txid.era", 8) as u16, ch.bytes("txid.hash", 32))
}

pub const MAGICS: [u64; 3] = [p::MAINNET_MAGIC, p::PREPROD_MAGIC, 2];

/// A message of protocol `proto` and spec kind `k` with seeded payload.
pub fn gen_msg(proto: usize, k: u8, ch: &mut Choices) -> AnyMessage {
    use p::*;
    match proto {
        HS => AnyMessage::Handshake(match k {
            0 => handshake::Message::Propose(gen_version_table(ch, 4, &MAGICS)),
            1 => handshake::Message::Accept(4 + ch.draw("hs.accept.v", 14), gen_version_data(ch, &MAGICS)),
            2 => handshake::Message::Refuse(match ch.draw("hs.refuse.kind", 3) {
                0 => handshake::RefuseReason::VersionMismatch((0..ch.draw("hs.vm.len", 4)).map(|_| 4 + ch.draw("hs.vm.v", 14)).collect()),
                1 => handshake::RefuseReason::HandshakeDecodeError(gen_u64(ch), "decode".into()),
                _ => handshake::RefuseReason::Refused(gen_u64(ch), "nö".into()),
            }),
            _ => handshake::Message::QueryReply(gen_version_table(ch, 4, &MAGICS)),
        }),
        KA => AnyMessage::KeepAlive(match k {
            0 => keepalive::Message::KeepAlive(ch.draw("ka.cookie", 1 << 16) as u16),
            1 => keepalive::Message::ResponseKeepAlive(ch.draw("ka.cookie", 1 << 16) as u16),
            _ => keepalive::Message::Done,
        }),
        CS => AnyMessage::ChainSync(match k {
            0 => chainsync::Message::RequestNext,
            1 => chainsync::Message::AwaitReply,
            2 => chainsync::Message::RollForward(gen_header(ch), gen_tip(ch)),
            3 => chainsync::Message::RollBackward(gen_point(ch), gen_tip(ch)),
            4 => chainsync::Message::FindIntersect((0..ch.draw("cs.fi.len", 4)).map(|_| gen_point(ch)).collect()),
            5 => chainsync::Message::IntersectFound(gen_point(ch), gen_tip(ch)),
            6 => chainsync::Message::IntersectNotFound(gen_tip(ch)),
            _ => chainsync::Message::Done,
        }),
        PS => AnyMessage::PeerSharing(match k {
            0 => peersharing::Message::ShareRequest(ch.draw("ps.amount", 256) as u8),
            1 => peersharing::Message::SharePeers(gen_peer_list(ch)),
            _ => peersharing::Message::Done,
        }),
        BF => AnyMessage::BlockFetch(match k {
            0 => blockfetch::Message::RequestRange((gen_point(ch), gen_point(ch))),
            1 => blockfetch::Message::ClientDone,
            2 => blockfetch::Message::StartBatch,
            3 => blockfetch::Message::NoBlocks,
            4 => blockfetch::Message::Block(if ch.draw("bf.block.big", 16) == 15 { big_blob(ch) } else { gen_blob(ch, 4000) }),
            _ => blockfetch::Message::BatchDone,
        }),
        TS => AnyMessage::TxSubmission(match k {
            0 => txsubmission::Message::Init,
            1 => txsubmission::Message::RequestTxIds(true, ch.draw("ts.ack", 1 << 16) as u16, ch.draw("ts.req", 1 << 16) as u16),
            2 => txsubmission::Message::RequestTxIds(false, ch.draw("ts.ack", 1 << 16) as u16, ch.draw("ts.req", 1 << 16) as u16),
            3 => txsubmission::Message::ReplyTxIds(
                (0..ch.draw("ts.ids.len", 4)).map(|_| txsubmission::TxIdAndSize(gen_era_txid(ch), ch.draw("ts.size", 1 << 32) as u32)).collect(),
            ),
            4 => txsubmission::Message::RequestTxs((0..ch.draw("ts.reqtxs.len", 4)).map(|_| gen_era_txid(ch)).collect()),
            5 => txsubmission::Message::ReplyTxs(
                (0..ch.draw("ts.txs.len", 4)).map(|_| txsubmission::EraTxBody(ch.draw("ts.era", 8) as u16, gen_blob(ch, 600))).collect(),
            ),
            _ => txsubmission::Message::Done,
        }),
        LN => AnyMessage::LeiosNotify(match k {
            0 => leiosnotify::Message::RequestNext,
            1 => leiosnotify::Message::BlockAnnouncement(gen_anycbor(ch)),
            2 => leiosnotify::Message::BlockOffer(gen_point(ch), ch.draw("ln.size", 1 << 32) as u32),
            3 => leiosnotify::Message::BlockTxsOffer(gen_point(ch)),
            4 => leiosnotify::Message::Votes((0..ch.draw("ln.votes.len", 4)).map(|_| gen_anycbor(ch)).collect()),
            _ => leiosnotify::Message::Done,
        }),
        _ => AnyMessage::LeiosFetch(match k {
            0 => leiosfetch::Message::BlockRequest(gen_point(ch)),
            1 => leiosfetch::Message::Block(gen_anycbor(ch)),
            2 => leiosfetch::Message::BlockTxsRequest(gen_point(ch), gen_bitmaps(ch)),
            3 => leiosfetch::Message::BlockTxs {
                point: gen_point(ch),
                bitmaps: gen_bitmaps(ch),
                txs: (0..ch.draw("lf.txs.len", 4)).map(|_| gen_anycbor(ch)).collect(),
            },
            _ => leiosfetch::Message::Done,
        }),
    }
}

// ---------------------------------------------------------------- shadow states

#[derive(Debug, Clone)]
pub enum AnyState {
    Hs(p::handshake::State<p::handshake::n2n::VersionData>),
    Ka(p::keepalive::State),
    Cs(p::chainsync::State<p::chainsync::HeaderContent>),
    Ps(p::peersharing::State),
    Bf(p::blockfetch::State),
    Ts(p::txsubmission::State),
    Ln(p::leiosnotify::State),
    Lf(p::leiosfetch::State),
}

impl AnyState {
    pub fn initial(proto: usize) -> AnyState {
        match proto {
            HS => AnyState::Hs(Default::default()),
            KA => AnyState::Ka(Default::default()),
            CS => AnyState::Cs(Default::default()),
            PS => AnyState::Ps(Default::default()),
            BF => AnyState::Bf(Default::default()),
            TS => AnyState::Ts(Default::default()),
            LN => AnyState::Ln(Default::default()),
            _ => AnyState::Lf(Default::default()),
        }
    }

    /// the real `State::apply`
    pub fn apply(&self, m: &AnyMessage) -> Option<Result<AnyState, String>> {
        Some(match (self, m) {
            (AnyState::Hs(s), AnyMessage::Handshake(m)) => s.apply(m).map(AnyState::Hs).map_err(|e| e.to_string()),
            (AnyState::Ka(s), AnyMessage::KeepAlive(m)) => s.apply(m).map(AnyState::Ka).map_err(|e| e.to_string()),
            (AnyState::Cs(s), AnyMessage::ChainSync(m)) => s.apply(m).map(AnyState::Cs).map_err(|e| e.to_string()),
            (AnyState::Ps(s), AnyMessage::PeerSharing(m)) => s.apply(m).map(AnyState::Ps).map_err(|e| e.to_string()),
            (AnyState::Bf(s), AnyMessage::BlockFetch(m)) => s.apply(m).map(AnyState::Bf).map_err(|e| e.to_string()),
            (AnyState::Ts(s), AnyMessage::TxSubmission(m)) => s.apply(m).map(AnyState::Ts).map_err(|e| e.to_string()),
            (AnyState::Ln(s), AnyMessage::LeiosNotify(m)) => s.apply(m).map(AnyState::Ln).map_err(|e| e.to_string()),
            (AnyState::Lf(s), AnyMessage::LeiosFetch(m)) => s.apply(m).map(AnyState::Lf).map_err(|e| e.to_string()),
            _ => return None,
        })
    }

    /// spec state class of a pallas state
    pub fn class(&self) -> u8 {
        use p::*;
        match self {
            AnyState::Hs(s) => match s {
                handshake::State::Propose => 0,
                handshake::State::Confirm(_) => 1,
                handshake::State::Done(_) => 2,
            },
            AnyState::Ka(s) => match s {
                keepalive::State::Client(_) => 0,
                keepalive::State::Server(_) => 1,
                keepalive::State::Done => 2,
            },
            AnyState::Cs(s) => match s {
                chainsync::State::Idle(_) => 0,
                chainsync::State::CanAwait => 1,
                chainsync::State::MustReply => 2,
                chainsync::State::Intersect(_) => 3,
                chainsync::State::Done => 4,
            },
            AnyState::Ps(s) => match s {
                peersharing::State::Idle(_) => 0,
                peersharing::State::Busy(_) => 1,
                peersharing::State::Done => 2,
            },
            AnyState::Bf(s) => match s {
                blockfetch::State::Idle => 0,
                blockfetch::State::Busy(_) => 1,
                blockfetch::State::Streaming(_) => 2,
                blockfetch::State::Done => 3,
            },
            AnyState::Ts(s) => match s {
                txsubmission::State::Init => 0,
                txsubmission::State::Idle => 1,
                txsubmission::State::TxIdsBlocking => 2,
                txsubmission::State::TxIdsNonBlocking => 3,
                txsubmission::State::Txs(_) => 4,
                txsubmission::State::Done => 5,
            },
            AnyState::Ln(s) => match s {
                leiosnotify::State::Idle(_) => 0,
                leiosnotify::State::Busy => 1,
                leiosnotify::State::Done => 2,
            },
            AnyState::Lf(s) => match s {
                leiosfetch::State::Idle(_) => 0,
                leiosfetch::State::AwaitingBlock(_) => 1,
                leiosfetch::State::AwaitingBlockTxs(..) => 2,
                leiosfetch::State::Done => 3,
            },
        }
    }

    /// "carrying the received data": compare the data held by the successor with
    /// the message (and, for leios-fetch, with the request kept by the previous state).
    /// Comparison is on Debug renderings where the types lack PartialEq.
    pub fn carries(&self, prev: &AnyState, m: &AnyMessage) -> Result<(), String> {
        use p::*;
        fn d<T: std::fmt::Debug>(x: &T) -> String {
            format!("{:?}", x)
        }
        let bad = |what: &str| Err(format!("successor does not carry {}", what));
        match (self, m) {
            (AnyState::Hs(s), AnyMessage::Handshake(m)) => match (s, m) {
                (handshake::State::Confirm(t), handshake::Message::Propose(x)) if t == x => Ok(()),
                (handshake::State::Confirm(_), _) => bad("the proposed table"),
                (handshake::State::Done(handshake::DoneState::Accepted(v, dta)), handshake::Message::Accept(x, y)) if v == x && dta == y => Ok(()),
                (handshake::State::Done(handshake::DoneState::Rejected(r)), handshake::Message::Refuse(x)) if r == x => Ok(()),
                (handshake::State::Done(handshake::DoneState::QueryReply(t)), handshake::Message::QueryReply(x)) if t == x => Ok(()),
                (handshake::State::Done(_), _) => bad("the confirmation data"),
                _ => Ok(()),
            },
            (AnyState::Ka(s), AnyMessage::KeepAlive(m)) => match (s, m) {
                (keepalive::State::Server(c), keepalive::Message::KeepAlive(x)) if c == x => Ok(()),
                (keepalive::State::Server(_), _) => bad("the cookie"),
                (keepalive::State::Client(keepalive::ClientState::Response(c)), keepalive::Message::ResponseKeepAlive(x)) if c == x => Ok(()),
                (keepalive::State::Client(_), keepalive::Message::ResponseKeepAlive(_)) => bad("the response cookie"),
                _ => Ok(()),
            },
            (AnyState::Cs(s), AnyMessage::ChainSync(m)) => match (s, m) {
                (chainsync::State::Intersect(ps), chainsync::Message::FindIntersect(x)) if ps == x => Ok(()),
                (chainsync::State::Intersect(_), _) => bad("the intersect points"),
                (chainsync::State::Idle(chainsync::Data::Intersection(pt, t)), chainsync::Message::IntersectFound(x, y)) if pt == x && t == y => Ok(()),
                (chainsync::State::Idle(chainsync::Data::NoIntersection(t)), chainsync::Message::IntersectNotFound(y)) if t == y => Ok(()),
                (chainsync::State::Idle(chainsync::Data::Content(c, t)), chainsync::Message::RollForward(x, y)) if d(c) == d(x) && t == y => Ok(()),
                (chainsync::State::Idle(chainsync::Data::Rollback(pt, t)), chainsync::Message::RollBackward(x, y)) if pt == x && t == y => Ok(()),
                (chainsync::State::Idle(_), chainsync::Message::IntersectFound(..))
                | (chainsync::State::Idle(_), chainsync::Message::IntersectNotFound(..))
                | (chainsync::State::Idle(_), chainsync::Message::RollForward(..))
                | (chainsync::State::Idle(_), chainsync::Message::RollBackward(..)) => bad("the chain-sync data"),
                _ => Ok(()),
            },
            (AnyState::Ps(s), AnyMessage::PeerSharing(m)) => match (s, m) {
                (peersharing::State::Busy(n), peersharing::Message::ShareRequest(x)) if n == x => Ok(()),
                (peersharing::State::Busy(_), _) => bad("the amount"),
                (peersharing::State::Idle(peersharing::IdleState::Response(ps)), peersharing::Message::SharePeers(x)) if ps == x => Ok(()),
                (peersharing::State::Idle(_), peersharing::Message::SharePeers(_)) => bad("the peers"),
                _ => Ok(()),
            },
            (AnyState::Bf(s), AnyMessage::BlockFetch(m)) => match (s, m) {
                (blockfetch::State::Busy(r), blockfetch::Message::RequestRange(x)) if r == x => Ok(()),
                (blockfetch::State::Busy(_), _) => bad("the range"),
                (blockfetch::State::Streaming(Some(b)), blockfetch::Message::Block(x)) if b == x => Ok(()),
                (blockfetch::State::Streaming(_), blockfetch::Message::Block(_)) => bad("the block body"),
                _ => Ok(()),
            },
            (AnyState::Ts(s), AnyMessage::TxSubmission(m)) => match (s, m) {
                // pallas keeps received bodies in Txs(..); wherever they are kept they must be the received ones
                (txsubmission::State::Txs(b), txsubmission::Message::ReplyTxs(x)) if b == x => Ok(()),
                (txsubmission::State::Txs(_), txsubmission::Message::ReplyTxs(_)) => bad("the tx bodies"),
                _ => Ok(()),
            },
            (AnyState::Ln(s), AnyMessage::LeiosNotify(m)) => match (s, m) {
                (leiosnotify::State::Idle(Some(leiosnotify::Notification::BlockAnnouncement(a))), leiosnotify::Message::BlockAnnouncement(x)) if a == x => Ok(()),
                (leiosnotify::State::Idle(Some(leiosnotify::Notification::BlockOffer(a, b))), leiosnotify::Message::BlockOffer(x, y)) if a == x && b == y => Ok(()),
                (leiosnotify::State::Idle(Some(leiosnotify::Notification::BlockTxsOffer(a))), leiosnotify::Message::BlockTxsOffer(x)) if a == x => Ok(()),
                (leiosnotify::State::Idle(Some(leiosnotify::Notification::Votes(a))), leiosnotify::Message::Votes(x)) if a == x => Ok(()),
                (leiosnotify::State::Idle(_), leiosnotify::Message::BlockAnnouncement(_))
                | (leiosnotify::State::Idle(_), leiosnotify::Message::BlockOffer(..))
                | (leiosnotify::State::Idle(_), leiosnotify::Message::BlockTxsOffer(_))
                | (leiosnotify::State::Idle(_), leiosnotify::Message::Votes(_)) => bad("the notification"),
                _ => Ok(()),
            },
            (AnyState::Lf(s), AnyMessage::LeiosFetch(m)) => match (s, m) {
                (leiosfetch::State::AwaitingBlock(e), leiosfetch::Message::BlockRequest(x)) if e == x => Ok(()),
                (leiosfetch::State::AwaitingBlock(_), _) => bad("the requested EB"),
                (leiosfetch::State::AwaitingBlockTxs(e, b), leiosfetch::Message::BlockTxsRequest(x, y)) if e == x && b == y => Ok(()),
                (leiosfetch::State::AwaitingBlockTxs(..), _) => bad("the requested EB/bitmaps"),
                (leiosfetch::State::Idle(Some((eb, leiosfetch::Response::Block(b)))), leiosfetch::Message::Block(x)) => {
                    let want = match prev {
                        AnyState::Lf(leiosfetch::State::AwaitingBlock(e)) => Some(e),
                        _ => None,
                    };
                    if b == x && want == Some(eb) { Ok(()) } else { bad("the EB body / its id") }
                }
                (leiosfetch::State::Idle(Some((eb, leiosfetch::Response::BlockTxs { txs }))), leiosfetch::Message::BlockTxs { txs: x, .. }) => {
                    let want = match prev {
                        AnyState::Lf(leiosfetch::State::AwaitingBlockTxs(e, _)) => Some(e),
                        _ => None,
                    };
                    if txs == x && want == Some(eb) { Ok(()) } else { bad("the EB txs / its id") }
                }
                (leiosfetch::State::Idle(_), leiosfetch::Message::Block(_)) | (leiosfetch::State::Idle(_), leiosfetch::Message::BlockTxs { .. }) => bad("the response"),
                _ => Ok(()),
            },
            _ => Ok(()),
        }
    }
}

/// structural rendering of a stack-2 message with version tables sorted (HashMap order is seeded)
pub fn render2(m: &AnyMessage) -> String {
    fn table(t: &p::handshake::n2n::VersionTable) -> String {
        let mut ks: Vec<_> = t.values.iter().collect();
        ks.sort_by_key(|x| *x.0);
        format!("{:?}", ks)
    }
    match m {
        AnyMessage::Handshake(p::handshake::Message::Propose(t)) => format!("Handshake(Propose({}))", table(t)),
        AnyMessage::Handshake(p::handshake::Message::QueryReply(t)) => format!("Handshake(QueryReply({}))", table(t)),
        other => format!("{:?}", other),
    }
}
