pub mod adapter;
pub mod sim;
