pub mod adapter;
pub mod modeb;
pub mod sim;
