pub mod adapter;
