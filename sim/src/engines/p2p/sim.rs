//! E2 mode A — discrete-event simulation of an `InitiatorBehavior` against a
//! simulated interface and simulated peers (conformant responders, optionally
//! Byzantine). No tokio; the behaviour stream is polled with a no-op waker.
//!
//! Event-order rules (what a real connection can produce), per peer and epoch:
//!  * `Connected` first; `Sent` in dispatch order; `Recv` in the peer's emission order;
//!  * a peer reacts to a message only after its `Send` was dispatched;
//!  * `Recv(r)` is deliverable only after the `Sent` of the client message it answers
//!    (same protocol) has been delivered; it may overtake the `Sent` of other protocols;
//!  * nothing of an epoch is delivered after its `Disconnected`.

use super::adapter::*;
use crate::core::*;
use crate::spec::proto::Agency;
use futures::StreamExt;
use pallas_network2::behavior::{
    AnyMessage, InitiatorBehavior, InitiatorCommand, InitiatorEvent, PromotionBehavior, PromotionConfig,
};
use pallas_network2::protocol as p;
use pallas_network2::{Behavior, BehaviorOutput, InterfaceCommand, InterfaceError, InterfaceEvent, PeerId};
use std::collections::{HashSet, VecDeque};

#[derive(Clone, Debug)]
pub struct Cfg {
    pub max_peers_pool: u64,
    pub max_steps: u64,
    pub byzantine: bool,
    pub conn_faults: bool,
    /// deliver every `Sent` confirmation immediately at dispatch (avoids the delayed-Sent schedules)
    pub prompt_sent: bool,
    pub small_limits: bool,
    pub check_c27: bool,
    pub check_c28: bool,
    pub leios: bool,
    /// after every step hand on all outputs and confirm all sends (no in-flight emissions)
    pub lockstep: bool,
}

enum Ev {
    Connected,
    Disconnected,
    Error,
    Sent(u64, AnyMessage),
}

struct Peer {
    id: PeerId,
    up: bool,
    closing: bool,
    dead: bool,
    connecting: u32,
    epoch: u64,
    evq: VecDeque<Ev>,
    recvq: VecDeque<(u64, AnyMessage)>,
    sent_seq: u64,
    sent_delivered: u64,
    spec: [u8; NPROTO],
    last_client_seq: [u64; NPROTO],
    last_req: [Option<AnyMessage>; NPROTO],
    bf_left: u64,
    byz: bool,
    /// model: banned by explicit command while tracked, or observed in the banned set
    banned_model: bool,
    discovered_addr: (u32, u16),
    /// initiator-view spec state: advanced when a Send is *produced* and when a Recv is delivered
    ispec: [u8; NPROTO],
    /// a (tolerated) violation was seen on this connection; not judged again until the next epoch
    poisoned: bool,
}

pub fn pid(i: usize) -> PeerId {
    PeerId { host: format!("10.0.0.{}", i + 1), port: 3000 + i as u16 }
}

pub struct Sim<'a> {
    pub cx: &'a mut RunCx,
    cfg: Cfg,
    beh: InitiatorBehavior,
    peers: Vec<Peer>,
    limits: (usize, usize, usize),
    banned_seen: HashSet<PeerId>,
    hk_since_quiet: u64,
    /// outputs already produced by the behaviour (polled right after the call that
    /// produced them, so their production step is known) but not yet handed on
    pending_out: VecDeque<(bool, BehaviorOutput<InitiatorBehavior>)>,
}

fn noop_cx() -> std::task::Context<'static> {
    std::task::Context::from_waker(futures::task::noop_waker_ref())
}

impl<'a> Sim<'a> {
    pub fn new(cx: &'a mut RunCx, cfg: Cfg) -> Self {
        let n = cx.ch.range("peers", 1, cfg.max_peers_pool) as usize;
        let limits = if cfg.small_limits {
            let max_peers = cx.ch.range("max_peers", 1, 6) as usize;
            let max_warm = cx.ch.range("max_warm", 0, 4) as usize;
            let max_hot = cx.ch.range("max_hot", 0, 3) as usize;
            (max_peers, max_warm, max_hot)
        } else {
            (100, 50, 10)
        };
        let max_err = if cfg.small_limits { cx.ch.range("max_err", 0, 2) as u32 } else { 1 };
        let mut versions = vec![13u64];
        if cfg.leios && cx.ch.chance("leios.on", 1, 2) {
            versions.push(15);
        }
        if cx.ch.chance("v11", 1, 3) {
            versions.push(11);
        }
        let table = p::handshake::n2n::VersionTable {
            values: versions
                .iter()
                .map(|v| (*v, p::handshake::n2n::VersionData::new(p::MAINNET_MAGIC, false, Some(1), Some(false))))
                .collect(),
        };
        let beh = InitiatorBehavior {
            promotion: PromotionBehavior::new(PromotionConfig {
                max_peers: limits.0,
                max_warm_peers: limits.1,
                max_hot_peers: limits.2,
                max_error_count: max_err,
            }),
            handshake: pallas_network2::behavior::HandshakeBehavior::new(pallas_network2::behavior::Config { supported_version: table }),
            ..Default::default()
        };
        let byz_any = cfg.byzantine;
        let peers = (0..n)
            .map(|i| Peer {
                id: pid(i),
                up: false,
                closing: false,
                dead: false,
                connecting: 0,
                epoch: 0,
                evq: VecDeque::new(),
                recvq: VecDeque::new(),
                sent_seq: 0,
                sent_delivered: 0,
                spec: [0; NPROTO],
                last_client_seq: [0; NPROTO],
                last_req: Default::default(),
                bf_left: 0,
                byz: byz_any && cx.ch.chance("peer.byz", 1, 3),
                banned_model: false,
                discovered_addr: (0x0a000001 + i as u32, 3000 + i as u16),
                ispec: [0; NPROTO],
                poisoned: false,
            })
            .collect();
        cx.tr.ev("setup", &[n as u64, limits.0 as u64, limits.1 as u64, limits.2 as u64, max_err as u64]);
        Sim { cx, cfg, beh, peers, limits, banned_seen: HashSet::new(), hk_since_quiet: 0, pending_out: VecDeque::new() }
    }

    fn idx(&self, id: &PeerId) -> Option<usize> {
        self.peers.iter().position(|x| &x.id == id)
    }

    // ------------------------------------------------------------ interface

    fn dispatch(&mut self, cmd: InterfaceCommand<AnyMessage>, inflight: bool) -> Result<(), Violation> {
        match cmd {
            InterfaceCommand::Connect(id) => {
                let Some(i) = self.idx(&id) else {
                    self.cx.st.inc("probe.connect_to_discovered_unknown");
                    return Ok(());
                };
                self.cx.tr.ev("cmd.connect", &[i as u64]);
                self.cx.st.inc("probe.connect_cmds");
                self.peers[i].connecting += 1;
            }
            InterfaceCommand::Disconnect(id) => {
                let Some(i) = self.idx(&id) else { return Ok(()) };
                self.cx.tr.ev("cmd.disconnect", &[i as u64]);
                let pr = &mut self.peers[i];
                if pr.up && !pr.closing {
                    pr.closing = true;
                }
                pr.evq.push_back(Ev::Disconnected);
            }
            InterfaceCommand::Send(id, m) => {
                let Some(i) = self.idx(&id) else { return Ok(()) };
                let (proto, k) = kind(&m);
                self.cx.tr.ev("cmd.send", &[i as u64, proto as u64, k as u64]);
                self.cx.tr.note(|| format!("send to {}: {:?}", i, m));
                if !self.peers[i].up {
                    // the interface holds no connection: it drops the message. Nothing reaches a
                    // responder on this epoch any more, so the epoch is no longer judged.
                    self.cx.st.inc("probe.send_while_not_connected");
                    self.peers[i].poisoned = true;
                    return Ok(());
                }
                if self.peers[i].closing || self.peers[i].dead {
                    // write on a shut-down / reset socket: the interface reports an error
                    self.peers[i].evq.push_back(Ev::Error);
                    self.peers[i].poisoned = true;
                    return Ok(());
                }
                self.cx.st.inc("probe.sends_dispatched");
                // ---- responder's view. The verdict is given at production time (collect);
                // a message produced on a poisoned connection makes the (conformant) responder
                // hang up, and so does anything its own automaton forbids.
                let spec = SPECS[proto];
                let s = self.peers[i].spec[proto];
                let ok = spec.agency(s) == Agency::Client && spec.next(s, k).is_some();
                if !ok || self.peers[i].poisoned {
                    if !ok && self.cfg.check_c28 && !self.peers[i].byz && !self.peers[i].poisoned {
                        self.cx.report(Violation::new(
                            "responder_observed",
                            format!("{}:{}+{}", spec.name, spec.sname(s), spec.mname(k)),
                            format!("responder {} in {} state {} received {} although the initiator-view monitor had accepted it", id, spec.name, spec.sname(s), spec.mname(k)),
                        ))?;
                    }
                    self.peers[i].dead = true;
                    self.peers[i].recvq.clear();
                    self.peers[i].evq.push_back(Ev::Error);
                    self.cx.st.inc("probe.peer_hung_up_on_violation");
                    let _ = inflight;
                    return Ok(());
                }
                let pr = &mut self.peers[i];
                pr.spec[proto] = spec.next(s, k).unwrap();
                pr.sent_seq += 1;
                pr.last_client_seq[proto] = pr.sent_seq;
                if proto == BF && k == 0 {
                    pr.bf_left = 0;
                }
                pr.last_req[proto] = Some(m.clone());
                let seq = pr.sent_seq;
                if self.cfg.prompt_sent {
                    self.peers[i].sent_delivered = seq;
                    self.cx.tr.ev("io.sent", &[i as u64, seq]);
                    self.beh.handle_io(InterfaceEvent::Sent(id, m));
                self.collect()?;
                } else {
                    pr.evq.push_back(Ev::Sent(seq, m));
                }
            }
        }
        Ok(())
    }

    /// Move every output the behaviour has produced so far into `pending_out`.
    /// Polling the outbound queue has no effect on the behaviour's state; doing it
    /// right after each call tells us *when* an output was produced, which is the
    /// instant the "never asks to connect to a banned peer" clause speaks about.
    fn collect(&mut self) -> Result<(), Violation> {
        let mut cx = noop_cx();
        while let std::task::Poll::Ready(Some(out)) = self.beh.poll_next_unpin(&mut cx) {
            if let BehaviorOutput::InterfaceCommand(InterfaceCommand::Connect(id)) = &out {
                if let Some(i) = self.idx(id) {
                    if self.cfg.check_c27 && self.peers[i].banned_model {
                        let how = if self.banned_seen.contains(id) { "in-banned-set" } else { "explicit-ban-command" };
                        let id = id.clone();
                        self.cx.report(Violation::new(
                            "banned_connect",
                            how.to_string(),
                            format!("InterfaceCommand::Connect({id}) produced after the peer was banned ({how})"),
                        ))?;
                    }
                }
            }
            // was an earlier message of the same protocol to the same peer still unconfirmed
            // (produced but its Sent not yet delivered) when this one was produced?
            let mut inflight = false;
            if let BehaviorOutput::InterfaceCommand(InterfaceCommand::Send(id, m)) = &out {
                let proto = kind(m).0;
                inflight = self.pending_out.iter().any(|(_, o)| match o {
                    BehaviorOutput::InterfaceCommand(InterfaceCommand::Send(i2, m2)) => i2 == id && kind(m2).0 == proto,
                    _ => false,
                });
                if let Some(i) = self.idx(id) {
                    inflight |= self.peers[i].evq.iter().any(|e| matches!(e, Ev::Sent(_, m2) if kind(m2).0 == proto));
                }
            }
            if let BehaviorOutput::InterfaceCommand(InterfaceCommand::Send(id, m)) = &out {
                if let Some(i) = self.idx(id) {
                    if self.cfg.check_c28 && !self.peers[i].poisoned && !self.peers[i].byz {
                        let (proto, k) = kind(m);
                        let spec = SPECS[proto];
                        let st = self.peers[i].ispec[proto];
                        match (spec.agency(st) == Agency::Client).then(|| spec.next(st, k)).flatten() {
                            Some(n) => self.peers[i].ispec[proto] = n,
                            None => {
                                self.peers[i].poisoned = true;
                                let msg = format!(
                                    "initiator emitted {} {} to {} while, by the messages it had emitted to and received from that peer, {} was in state {} (agency {:?})",
                                    spec.name, spec.mname(k), id, spec.name, spec.sname(st), spec.agency(st)
                                );
                                if inflight {
                                    self.cx.report(Violation::new(
                                        "emitted_before_sent_confirmation",
                                        format!("{}:{}", spec.name, spec.mname(k)),
                                        format!("{msg}; an earlier {} message to that peer was still unconfirmed (no Sent delivered yet)", spec.name),
                                    ))?;
                                } else {
                                    self.cx.report(Violation::new("protocol_violation", format!("{}:{}+{}", spec.name, spec.sname(st), spec.mname(k)), msg))?;
                                }
                            }
                        }
                    }
                }
            }
            self.pending_out.push_back((inflight, out));
        }
        Ok(())
    }

    /// hand one produced output on (to the interface / the application); false when none
    fn drain_one(&mut self) -> Result<bool, Violation> {
        match self.pending_out.pop_front() {
            Some((inflight, out)) => {
                match out {
                    BehaviorOutput::InterfaceCommand(c) => self.dispatch(c, inflight)?,
                    BehaviorOutput::ExternalEvent(e) => {
                        self.cx.st.inc("probe.external_events");
                        match e {
                            InitiatorEvent::PeerInitialized(..) => self.cx.st.inc("probe.peer_initialized"),
                            InitiatorEvent::BlockHeaderReceived(id, ..) | InitiatorEvent::RollbackReceived(id, ..) | InitiatorEvent::IntersectionFound(id, ..) => {
                                self.cx.st.inc("probe.chainsync_events");
                                // the application asks for more, as the repo's examples do
                                if self.cx.ch.chance("app.continue_sync", 3, 4) {
                                    self.cx.tr.ev("cmd.continue_sync", &[]);
                                    self.beh.execute(InitiatorCommand::ContinueSync(id));
                self.collect()?;
                                }
                            }
                            InitiatorEvent::BlockBodyReceived(..) => self.cx.st.inc("probe.block_bodies"),
                            _ => {}
                        }
                    }
                }
                Ok(true)
            }
            None => Ok(false),
        }
    }

    // ------------------------------------------------------------ delivery

    fn deliver_ev(&mut self, i: usize) -> Result<(), Violation> {
        let Some(ev) = self.peers[i].evq.pop_front() else { return Ok(()) };
        let id = self.peers[i].id.clone();
        match ev {
            Ev::Connected => {
                let pr = &mut self.peers[i];
                pr.up = true;
                pr.closing = false;
                pr.dead = false;
                pr.epoch += 1;
                pr.spec = [0; NPROTO];
                pr.ispec = [0; NPROTO];
                pr.poisoned = false;
                pr.last_client_seq = [0; NPROTO];
                pr.last_req = Default::default();
                pr.sent_seq = 0;
                pr.sent_delivered = 0;
                pr.recvq.clear();
                // stale Sent of the previous epoch can no longer be confirmed
                pr.evq.retain(|e| !matches!(e, Ev::Sent(..)));
                self.cx.tr.ev("io.connected", &[i as u64]);
                self.cx.st.inc("probe.connected");
                self.beh.handle_io(InterfaceEvent::Connected(id));
                self.collect()?;
            }
            Ev::Disconnected => {
                let pr = &mut self.peers[i];
                pr.up = false;
                pr.closing = false;
                pr.ispec = [0; NPROTO];
                pr.poisoned = false;
                pr.recvq.clear();
                pr.evq.retain(|e| !matches!(e, Ev::Sent(..)));
                self.cx.tr.ev("io.disconnected", &[i as u64]);
                self.cx.st.inc("probe.disconnected");
                self.beh.handle_io(InterfaceEvent::Disconnected(id));
                self.collect()?;
            }
            Ev::Error => {
                self.cx.tr.ev("io.error", &[i as u64]);
                self.cx.st.inc("probe.error_events");
                self.beh.handle_io(InterfaceEvent::Error(id, InterfaceError::Other("sim".into())));
                self.collect()?;
            }
            Ev::Sent(seq, m) => {
                self.peers[i].sent_delivered = seq;
                self.cx.tr.ev("io.sent", &[i as u64, seq]);
                self.beh.handle_io(InterfaceEvent::Sent(id, m));
                self.collect()?;
            }
        }
        Ok(())
    }

    fn recv_ready(&self, i: usize) -> bool {
        let pr = &self.peers[i];
        pr.up && pr.recvq.front().map(|(needs, _)| *needs <= pr.sent_delivered).unwrap_or(false)
    }

    fn deliver_recv(&mut self, i: usize) -> Result<(), Violation> {
        // batch 1..3 deliverable messages into one Recv, as read_full_msgs does
        let max = 1 + self.cx.ch.draw("recv.batch", 3) as usize;
        let mut ms = vec![];
        while ms.len() < max && self.recv_ready(i) {
            ms.push(self.peers[i].recvq.pop_front().unwrap().1);
        }
        if ms.is_empty() {
            return Ok(());
        }
        self.cx.tr.ev("io.recv", &[i as u64, ms.len() as u64]);
        self.cx.tr.note(|| format!("recv from {}: {:?}", i, ms));
        self.cx.st.add("probe.recv_msgs", ms.len() as u64);
        for m in &ms {
            let (proto, k) = kind(m);
            let spec = SPECS[proto];
            let st = self.peers[i].ispec[proto];
            match (spec.agency(st) == Agency::Server).then(|| spec.next(st, k)).flatten() {
                Some(n) => self.peers[i].ispec[proto] = n,
                None => self.peers[i].poisoned = true,
            }
        }
        let id = self.peers[i].id.clone();
        self.beh.handle_io(InterfaceEvent::Recv(id, ms));
        self.collect()?;
        Ok(())
    }

    // ------------------------------------------------------------ peers

    fn peer_emit(&mut self, i: usize, m: AnyMessage) {
        let (proto, k) = kind(&m);
        let spec = SPECS[proto];
        let pr = &mut self.peers[i];
        if let Some(n) = spec.next(pr.spec[proto], k) {
            if spec.agency(pr.spec[proto]) == Agency::Server {
                pr.spec[proto] = n;
            }
        }
        let needs = pr.last_client_seq[proto];
        pr.recvq.push_back((needs, m));
    }

    /// a conformant responder makes one legal move on a protocol where it has agency
    fn peer_act(&mut self, i: usize) {
        if !self.peers[i].up || self.peers[i].dead || self.peers[i].closing {
            return;
        }
        if self.peers[i].byz && self.cx.ch.chance("byz.act", 1, 2) {
            let proto = self.cx.ch.draw("byz.proto", NPROTO as u64) as usize;
            let k = self.cx.ch.draw("byz.kind", SPECS[proto].msgs.len() as u64) as u8;
            let m = if proto == PS && k == 1 && self.cx.ch.chance("byz.hugepeers", 1, 4) {
                // 300 addresses: all distinct (overfills the discovery pool) or 40 repeated ones
                let md = if self.cx.ch.chance("byz.hugepeers.distinct", 1, 2) { 300 } else { 40 };
                AnyMessage::PeerSharing(p::peersharing::Message::SharePeers(
                    (0..300u32).map(|j| p::peersharing::PeerAddress::V4(std::net::Ipv4Addr::from_bits(0x0a000001 + (j % md)), 3000 + (j % md) as u16)).collect(),
                ))
            } else {
                gen_msg(proto, k, &mut self.cx.ch)
            };
            self.cx.tr.ev("peer.byzantine", &[i as u64, proto as u64, k as u64]);
            self.cx.st.inc("fault.byzantine_message");
            // Byzantine emissions are deliverable at once
            self.peers[i].recvq.push_back((0, m));
            return;
        }
        let cands: Vec<usize> = (0..NPROTO).filter(|q| SPECS[*q].agency(self.peers[i].spec[*q]) == Agency::Server).collect();
        if cands.is_empty() {
            return;
        }
        let proto = cands[self.cx.ch.draw("peer.proto", cands.len() as u64) as usize];
        let s = self.peers[i].spec[proto];
        let req = self.peers[i].last_req[proto].clone();
        let ch = &mut self.cx.ch;
        let m: AnyMessage = match proto {
            HS => {
                let Some(AnyMessage::Handshake(p::handshake::Message::Propose(t))) = req else { return };
                let mut vs: Vec<u64> = t.values.keys().copied().collect();
                vs.sort();
                match ch.draw("hs.reply", 8) {
                    0 => AnyMessage::Handshake(p::handshake::Message::Refuse(p::handshake::RefuseReason::VersionMismatch(vec![7, 8]))),
                    1 => AnyMessage::Handshake(p::handshake::Message::Refuse(p::handshake::RefuseReason::Refused(vs[0], "busy".into()))),
                    2 => AnyMessage::Handshake(p::handshake::Message::QueryReply(t.clone())),
                    _ => {
                        let v = vs[vs.len() - 1 - ch.draw("hs.pick", vs.len() as u64) as usize];
                        let ps = if ch.chance("hs.nops", 1, 5) { 0 } else { 1 };
                        AnyMessage::Handshake(p::handshake::Message::Accept(
                            v,
                            p::handshake::n2n::VersionData::new(p::MAINNET_MAGIC, false, Some(ps), Some(false)),
                        ))
                    }
                }
            }
            KA => {
                let Some(AnyMessage::KeepAlive(p::keepalive::Message::KeepAlive(c))) = req else { return };
                AnyMessage::KeepAlive(p::keepalive::Message::ResponseKeepAlive(c))
            }
            CS => {
                use crate::spec::proto::cs;
                match s {
                    cs::INTERSECT => {
                        if ch.chance("cs.notfound", 1, 8) {
                            AnyMessage::ChainSync(p::chainsync::Message::IntersectNotFound(gen_tip(ch)))
                        } else {
                            AnyMessage::ChainSync(p::chainsync::Message::IntersectFound(gen_point(ch), gen_tip(ch)))
                        }
                    }
                    cs::CAN_AWAIT if ch.chance("cs.await", 1, 4) => AnyMessage::ChainSync(p::chainsync::Message::AwaitReply),
                    _ => {
                        if ch.chance("cs.rollback", 1, 5) {
                            AnyMessage::ChainSync(p::chainsync::Message::RollBackward(gen_point(ch), gen_tip(ch)))
                        } else {
                            AnyMessage::ChainSync(p::chainsync::Message::RollForward(gen_header(ch), gen_tip(ch)))
                        }
                    }
                }
            }
            PS => {
                let Some(AnyMessage::PeerSharing(p::peersharing::Message::ShareRequest(n))) = req else { return };
                // one reply in eight uses the whole amount asked for, with addresses no other peer hands out
                let addrs = if ch.draw("ps.full", 8) == 7 {
                    (0..n as u32).map(|j| p::peersharing::PeerAddress::V4(std::net::Ipv4Addr::from_bits(0x0b000000 + ((i as u32) << 8) + j), 3000)).collect()
                } else {
                    let k = ch.draw("ps.count", (n as u64).min(6) + 1);
                    let pool = self.peers.len() as u64 + 3;
                    (0..k)
                        .map(|_| {
                            let j = ch.draw("ps.addr", pool) as u32;
                            p::peersharing::PeerAddress::V4(std::net::Ipv4Addr::from_bits(0x0a000001 + j), 3000 + j as u16)
                        })
                        .collect()
                };
                AnyMessage::PeerSharing(p::peersharing::Message::SharePeers(addrs))
            }
            BF => {
                use crate::spec::proto::bf;
                if s == bf::BUSY {
                    if ch.chance("bf.noblocks", 1, 4) {
                        AnyMessage::BlockFetch(p::blockfetch::Message::NoBlocks)
                    } else {
                        self.peers[i].bf_left = ch.draw("bf.blocks", 4);
                        AnyMessage::BlockFetch(p::blockfetch::Message::StartBatch)
                    }
                } else if self.peers[i].bf_left > 0 {
                    self.peers[i].bf_left -= 1;
                    AnyMessage::BlockFetch(p::blockfetch::Message::Block(gen_blob(ch, 200)))
                } else {
                    AnyMessage::BlockFetch(p::blockfetch::Message::BatchDone)
                }
            }
            TS => {
                use crate::spec::proto::ts;
                let k = *ch.pick("ts.srv", &[ts::M_REQUEST_TXIDS_BLOCKING, ts::M_REQUEST_TXIDS_NONBLOCKING, ts::M_REQUEST_TXS]);
                gen_msg(TS, k, ch)
            }
            LN => {
                let k = 1 + ch.draw("ln.kind", 4) as u8;
                gen_msg(LN, k, ch)
            }
            _ => match req {
                Some(AnyMessage::LeiosFetch(p::leiosfetch::Message::BlockRequest(_))) => AnyMessage::LeiosFetch(p::leiosfetch::Message::Block(gen_anycbor(ch))),
                Some(AnyMessage::LeiosFetch(p::leiosfetch::Message::BlockTxsRequest(pt, bm))) => AnyMessage::LeiosFetch(p::leiosfetch::Message::BlockTxs {
                    point: pt,
                    bitmaps: bm,
                    txs: (0..ch.draw("lf.n", 3)).map(|_| gen_anycbor(ch)).collect(),
                }),
                _ => return,
            },
        };
        let (pp, kk) = kind(&m);
        self.cx.tr.ev("peer.reply", &[i as u64, pp as u64, kk as u64]);
        self.cx.st.inc("probe.peer_replies");
        self.peer_emit(i, m);
    }

    // ------------------------------------------------------------ commands

    fn command(&mut self) -> Result<(), Violation> {
        let n = self.peers.len() as u64;
        let i = self.cx.ch.draw("cmd.peer", n) as usize;
        let id = self.peers[i].id.clone();
        match self.cx.ch.draw("cmd.kind", 14) {
            0 | 1 | 2 => {
                self.cx.tr.ev("cmd.include", &[i as u64]);
                self.beh.execute(InitiatorCommand::IncludePeer(id));
                self.collect()?;
            }
            3 => {
                let tracked = self.beh.peers.contains_key(&id);
                self.cx.tr.ev("cmd.ban", &[i as u64, tracked as u64]);
                self.beh.execute(InitiatorCommand::BanPeer(id));
                self.collect()?;
                if tracked {
                    self.peers[i].banned_model = true;
                    self.cx.st.inc("probe.ban_command_on_tracked_peer");
                }
            }
            4 => {
                self.cx.tr.ev("cmd.demote", &[i as u64]);
                self.beh.execute(InitiatorCommand::DemotePeer(id));
                self.collect()?;
            }
            5 => {
                self.cx.tr.ev("cmd.start_sync", &[]);
                let pts = (0..self.cx.ch.draw("sync.points", 3)).map(|_| gen_point(&mut self.cx.ch)).collect();
                self.beh.execute(InitiatorCommand::StartSync(pts));
                self.collect()?;
            }
            6 => {
                self.cx.tr.ev("cmd.continue_sync", &[i as u64]);
                self.beh.execute(InitiatorCommand::ContinueSync(id));
                self.collect()?;
            }
            7 => {
                self.cx.tr.ev("cmd.request_blocks", &[]);
                let r = (gen_point(&mut self.cx.ch), gen_point(&mut self.cx.ch));
                self.beh.execute(InitiatorCommand::RequestBlocks(r));
                self.collect()?;
            }
            8 if self.cfg.leios => {
                self.cx.tr.ev("cmd.fetch_eb", &[i as u64]);
                let pt = gen_point(&mut self.cx.ch);
                if self.cx.ch.chance("fetch.txs", 1, 2) {
                    let bm = gen_bitmaps(&mut self.cx.ch);
                    self.beh.execute(InitiatorCommand::FetchEbTxs(id, pt, bm));
                self.collect()?;
                } else {
                    self.beh.execute(InitiatorCommand::FetchEb(id, pt));
                self.collect()?;
                }
            }
            9 => {
                self.cx.tr.ev("io.idle", &[]);
                self.cx.st.inc("probe.housekeeping");
                self.hk_since_quiet += 1;
                self.beh.handle_io(InterfaceEvent::Idle);
                self.collect()?;
            }
            _ => {
                self.cx.tr.ev("cmd.housekeeping", &[]);
                self.cx.st.inc("probe.housekeeping");
                self.hk_since_quiet += 1;
                self.beh.execute(InitiatorCommand::Housekeeping);
                self.collect()?;
            }
        }
        Ok(())
    }

    // ------------------------------------------------------------ oracles

    fn check_c27(&mut self) -> Result<(), Violation> {
        let pr = &self.beh.promotion;
        let (c, w, h, b) = (&pr.cold_peers, &pr.warm_peers, &pr.hot_peers, &pr.banned_peers);
        let pairs: [(&str, &HashSet<PeerId>, &HashSet<PeerId>); 6] =
            [("cold-warm", c, w), ("cold-hot", c, h), ("cold-banned", c, b), ("warm-hot", w, h), ("warm-banned", w, b), ("hot-banned", h, b)];
        let mut found = None;
        for (name, x, y) in pairs {
            if let Some(both) = x.intersection(y).next() {
                found = Some(Violation::new("sets_overlap", name.to_string(), format!("peer {both} is in two promotion sets: {name}")));
                break;
            }
        }
        if let Some(v) = found {
            self.cx.report(v)?;
        }
        let (mp, mw, mh) = self.limits;
        let (lc, lw, lh) = (c.len(), w.len(), h.len());
        if lw > mw {
            self.cx.report(Violation::new("limit", "warm", format!("{lw} warm peers > max_warm_peers {mw}")))?;
        }
        if lh > mh {
            self.cx.report(Violation::new("limit", "hot", format!("{lh} hot peers > max_hot_peers {mh}")))?;
        }
        if lc + lw + lh > mp {
            self.cx.report(Violation::new("limit", "total", format!("{} tracked peers > max_peers {mp}", lc + lw + lh)))?;
        }
        // banned is forever
        let now: Vec<PeerId> = self.beh.promotion.banned_peers.iter().cloned().collect();
        let missing: Option<PeerId> = self.banned_seen.iter().find(|x| !self.beh.promotion.banned_peers.contains(*x)).cloned();
        if let Some(x) = missing {
            self.cx.report(Violation::new("unbanned", "left-banned-set", format!("peer {x} left the banned set")))?;
        }
        for x in now {
            if self.banned_seen.insert(x.clone()) {
                self.cx.st.inc("probe.peer_entered_banned_set");
                if let Some(i) = self.idx(&x) {
                    self.peers[i].banned_model = true;
                }
            }
        }
        self.cx.st.state(mix(mix(lc as u64, lw as u64), mix(lh as u64, self.banned_seen.len() as u64)));
        Ok(())
    }

    // ------------------------------------------------------------ main loop

    pub fn run(mut self) -> Result<(), Violation> {
        let steps = self.cx.ch.range("steps", 1, self.cfg.max_steps);
        for _ in 0..steps {
            self.cx.st.steps += 1;
            let n = self.peers.len();
            match self.cx.ch.draw("step", 12) {
                0 | 1 | 2 => {
                    self.drain_one()?;
                }
                3 => {
                    // drain everything (what Manager does when nothing else is ready)
                    while self.drain_one()? {}
                }
                4 | 5 => self.command()?,
                6 | 7 => {
                    let i = self.cx.ch.draw("deliver.peer", n as u64) as usize;
                    let both = !self.peers[i].evq.is_empty() && self.recv_ready(i);
                    if self.recv_ready(i) && (!both || self.cx.ch.chance("deliver.recv_first", 1, 2)) {
                        self.deliver_recv(i)?;
                    } else {
                        self.deliver_ev(i)?;
                    }
                }
                8 => {
                    let i = self.cx.ch.draw("act.peer", n as u64) as usize;
                    self.peer_act(i);
                }
                9 => {
                    // a pending connect completes (or fails)
                    let i = self.cx.ch.draw("conn.peer", n as u64) as usize;
                    if self.peers[i].connecting > 0 {
                        self.peers[i].connecting -= 1;
                        if self.cfg.conn_faults && self.cx.ch.chance("conn.fail", 1, 5) {
                            self.cx.st.inc("fault.connect_failed");
                            self.peers[i].evq.push_back(Ev::Error);
                        } else {
                            self.peers[i].evq.push_back(Ev::Connected);
                        }
                    }
                }
                10 if self.cfg.conn_faults => {
                    let i = self.cx.ch.draw("fault.peer", n as u64) as usize;
                    if self.peers[i].up && !self.peers[i].dead {
                        self.cx.st.inc("fault.connection_reset");
                        self.cx.tr.ev("fault.reset", &[i as u64]);
                        self.peers[i].dead = true;
                        self.peers[i].recvq.clear();
                        self.peers[i].evq.push_back(Ev::Error);
                    }
                }
                _ => {
                    // let everything in flight land: deliver all queues, drain all outputs
                    for i in 0..n {
                        while !self.peers[i].evq.is_empty() {
                            self.deliver_ev(i)?;
                        }
                        while self.recv_ready(i) {
                            self.deliver_recv(i)?;
                        }
                    }
                    while self.drain_one()? {}
                    self.hk_since_quiet = 0;
                }
            }
            self.collect()?;
            if self.cfg.lockstep {
                loop {
                    while self.drain_one()? {
                        self.collect()?;
                    }
                    let mut any = false;
                    for i in 0..self.peers.len() {
                        while matches!(self.peers[i].evq.front(), Some(Ev::Sent(..))) {
                            self.deliver_ev(i)?;
                            any = true;
                        }
                    }
                    self.collect()?;
                    if !any && self.pending_out.is_empty() {
                        break;
                    }
                }
            }
            if self.cfg.check_c27 {
                self.check_c27()?;
            }
        }
        self.cx.st.progress = true;
        Ok(())
    }
}
