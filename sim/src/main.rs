mod core;
mod engines;
mod props;
mod spec;

use crate::core::*;

fn usage() -> ! {
    eprintln!("usage: simcheck <PROPERTY> [--tier quick|thorough] [--seed N] [--workers N] [--replay FILE] [--scale F] [--scenario NAME]");
    std::process::exit(2)
}

fn main() {
    let args: Vec<String> = std::env::args().collect();
    if args.len() < 2 {
        usage();
    }
    let id = args[1].clone();
    if id == "--list" {
        for p in props::ALL {
            println!("{}", p);
        }
        return;
    }
    let mut tier = std::env::var("VERIF_TIER").unwrap_or_else(|_| "quick".into());
    let mut seed: u64 = std::env::var("VERIF_SEED").ok().and_then(|s| s.parse().ok()).unwrap_or(20260921);
    let mut workers: usize = std::env::var("VERIF_WORKERS").ok().and_then(|s| s.parse().ok()).unwrap_or(16);
    let root = std::env::var("VERIF_ROOT").unwrap_or_else(|_| "/verif".into());
    let mut replay: Option<String> = None;
    let mut scale = std::env::var("VERIF_SCALE").ok().and_then(|s| s.parse().ok()).unwrap_or(1.0f64);
    let mut only = None;
    let mut i = 2;
    while i < args.len() {
        let a = args[i].as_str();
        let mut val = || {
            i += 1;
            args.get(i).cloned().unwrap_or_else(|| usage())
        };
        match a {
            "--tier" => tier = val(),
            "--seed" => seed = val().parse().unwrap_or_else(|_| usage()),
            "--workers" => workers = val().parse().unwrap_or_else(|_| usage()),
            "--replay" => replay = Some(val()),
            "--scale" => scale = val().parse().unwrap_or_else(|_| usage()),
            "--scenario" => only = Some(val()),
            _ => usage(),
        }
        i += 1;
    }
    if tier != "quick" && tier != "thorough" {
        usage();
    }
    install_panic_hook();
    let Some(def) = props::lookup(&id) else {
        eprintln!("HARNESS-ERROR: unknown or unclaimed property {}", id);
        std::process::exit(2)
    };
    let code = if let Some(f) = replay {
        if !entropy_shim_active() {
            eprintln!("HARNESS-ERROR: entropy shim not active (run through /verif/check)");
            std::process::exit(2);
        }
        replay_file(&def, &f, &root)
    } else {
        let opts = Opts {
            wall_budget_s: if tier == "thorough" { 3000.0 } else { 600.0 },
            tier,
            seed,
            workers,
            out: std::env::var("VERIF_OUT").unwrap_or_else(|_| root.clone()),
            root,
            scale,
            only_scenario: only,
        };
        run_check(&def, &opts)
    };
    std::process::exit(code)
}
