mod core;
mod engines;
mod props;
mod spec;

use crate::core::*;

fn usage() -> ! {
    eprintln!("usage: simcheck <PROPERTY> [--tier quick|thorough] [--seed N] [--workers N] [--replay FILE] [--scale F] [--scenario NAME]");
    std::process::exit(2)
}

fn main() {
    let args: Vec<String> = std::env::args().collect();
    if args.len() < 2 {
        usage();
    }
    let id = args[1].clone();
    if id == "--artefacts" {
        for (n, b) in &props::c09::artefacts().blocks {
            if let Ok(blk) = pallas_traverse::MultiEraBlock::decode(b) {
                println!("{n} era={:?} slot={} number={} txs={}", blk.era(), blk.slot(), blk.number(), blk.tx_count());
            }
        }
        return;
    }
    if id == "--list" {
        for p in props::ALL {
            println!("{}", p);
        }
        return;
    }
    let mut tier = std::env::var("VERIF_TIER").unwrap_or_else(|_| "quick".into());
    let mut seed: u64 = std::env::var("VERIF_SEED").ok().and_then(|s| s.parse().ok()).unwrap_or(20260921);
    let mut workers: usize = std::env::var("VERIF_WORKERS").ok().and_then(|s| s.parse().ok()).unwrap_or(16);
    let root = std::env::var("VERIF_ROOT").unwrap_or_else(|_| "/verif".into());
    let mut replay: Option<String> = None;
    let mut scale = std::env::var("VERIF_SCALE").ok().and_then(|s| s.parse().ok()).unwrap_or(1.0f64);
    let mut only = None;
    let mut i = 2;
    while i < args.len() {
        let a = args[i].as_str();
        let mut val = || {
            i += 1;
            args.get(i).cloned().unwrap_or_else(|| usage())
        };
        match a {
            "--tier" => tier = val(),
            "--seed" => seed = val().parse().unwrap_or_else(|_| usage()),
            "--workers" => workers = val().parse().unwrap_or_else(|_| usage()),
            "--replay" => replay = Some(val()),
            "--scale" => scale = val().parse().unwrap_or_else(|_| usage()),
            "--scenario" => only = Some(val()),
            "--single" => {
                i += 2;
            }
            _ => usage(),
        }
        i += 1;
    }
    if tier != "quick" && tier != "thorough" {
        usage();
    }
    install_panic_hook();
    let Some(def) = props::lookup(&id) else {
        eprintln!("HARNESS-ERROR: unknown or unclaimed property {}", id);
        std::process::exit(2)
    };
    // ---- supervision of checks whose code under test may abort the process
    let may_abort = def.batches.iter().any(|b| b.scenario.may_abort());
    if let Some(pos) = args.iter().position(|a| a == "--single") {
        let sc = args[pos + 1].clone();
        let idx: u64 = args[pos + 2].parse().unwrap();
        limit_memory();
        std::process::exit(run_single(&def, &sc, idx, seed));
    }
    if may_abort && std::env::var("VERIF_CHILD").is_err() && replay.is_none() {
        std::process::exit(supervise(&def, &args, seed, &root));
    }
    if may_abort {
        limit_memory();
    }
    let code = if let Some(f) = replay {
        if !entropy_shim_active() {
            eprintln!("HARNESS-ERROR: entropy shim not active (run through /verif/check)");
            std::process::exit(2);
        }
        let txt = std::fs::read_to_string(&f).unwrap_or_default();
        if txt.contains("\"mode\": \"abort\"") {
            let v: serde_json::Value = serde_json::from_str(&txt).expect("replay json");
            let exe = std::env::current_exe().expect("exe");
            let st = std::process::Command::new(&exe)
                .arg(def.prop)
                .args(["--seed", &v["seed"].as_u64().unwrap().to_string(), "--single", v["scenario"].as_str().unwrap(), &v["run_index"].as_u64().unwrap().to_string()])
                .env("VERIF_CHILD", "1")
                .status()
                .expect("spawn single");
            if matches!(st.code(), Some(0..=2)) {
                println!("replay did not abort");
                2
            } else {
                println!("replayed: process killed again ({:?})", st);
                println!("VIOLATION property={} replay={}", def.prop, f);
                1
            }
        } else {
            replay_file(&def, &f, &root)
        }
    } else {
        let opts = Opts {
            wall_budget_s: if tier == "thorough" { 1200.0 } else { 600.0 },
            tier,
            seed,
            workers,
            out: std::env::var("VERIF_OUT").unwrap_or_else(|_| root.clone()),
            root,
            scale,
            only_scenario: only,
        };
        run_check(&def, &opts)
    };
    std::process::exit(code)
}


/// Allocation requests above 1 GiB fail at once, whatever the state of the heap. A decoder that
/// pre-allocates from a length field read off the wire then aborts deterministically (`handle_alloc_error`)
/// instead of succeeding or failing with the address space the other worker threads happen to hold;
/// nothing in the harness or in pallas legitimately asks for that much in one piece.
struct CappedAlloc;
const ALLOC_CAP: usize = 1 << 30;
unsafe impl std::alloc::GlobalAlloc for CappedAlloc {
    unsafe fn alloc(&self, l: std::alloc::Layout) -> *mut u8 {
        if l.size() > ALLOC_CAP { std::ptr::null_mut() } else { std::alloc::System.alloc(l) }
    }
    unsafe fn dealloc(&self, p: *mut u8, l: std::alloc::Layout) {
        std::alloc::System.dealloc(p, l)
    }
    unsafe fn alloc_zeroed(&self, l: std::alloc::Layout) -> *mut u8 {
        if l.size() > ALLOC_CAP { std::ptr::null_mut() } else { std::alloc::System.alloc_zeroed(l) }
    }
    unsafe fn realloc(&self, p: *mut u8, l: std::alloc::Layout, n: usize) -> *mut u8 {
        if n > ALLOC_CAP { std::ptr::null_mut() } else { std::alloc::System.realloc(p, l, n) }
    }
}
#[global_allocator]
static GLOBAL: CappedAlloc = CappedAlloc;

fn limit_memory() {
    // giant allocations from garbage lengths must fail fast (abort) instead of thrashing
    let lim = libc::rlimit { rlim_cur: 12 << 30, rlim_max: 12 << 30 };
    unsafe {
        libc::setrlimit(libc::RLIMIT_AS, &lim);
    }
}

/// Parent side: run the check in a child; if the child is killed (abort, stack overflow,
/// out of memory) find the run that did it from the per-worker breadcrumbs and report it.
fn supervise(def: &CheckDef, args: &[String], seed: u64, root: &str) -> i32 {
    use std::os::unix::process::ExitStatusExt;
    let out = std::env::var("VERIF_OUT").unwrap_or_else(|_| root.to_string());
    let crumbs = format!("/dev/shm/verif-crumbs-{}", std::process::id());
    let _ = std::fs::create_dir_all(&crumbs);
    let exe = std::env::current_exe().expect("exe");
    let st = std::process::Command::new(&exe).args(&args[1..]).env("VERIF_CHILD", "1").env("VERIF_BREADCRUMBS", &crumbs).status().expect("spawn child");
    let code = match st.code() {
        Some(c @ 0..=2) => {
            let _ = std::fs::remove_dir_all(&crumbs);
            return c;
        }
        other => other,
    };
    let how = match (code, st.signal()) {
        (_, Some(s)) => format!("signal {s}"),
        (Some(c), _) => format!("exit code {c}"),
        _ => "unknown".into(),
    };
    println!("child process died ({how}); attributing it to a run from the breadcrumbs");
    let mut cands: Vec<(String, u64)> = vec![];
    if let Ok(rd) = std::fs::read_dir(&crumbs) {
        for e in rd.flatten() {
            if let Ok(s) = std::fs::read_to_string(e.path()) {
                let mut it = s.split_whitespace();
                if let (Some(a), Some(b)) = (it.next(), it.next()) {
                    if let Ok(i) = b.parse() {
                        cands.push((a.to_string(), i));
                    }
                }
            }
        }
    }
    let _ = std::fs::remove_dir_all(&crumbs);
    cands.sort();
    cands.dedup();
    let mut reported = false;
    for (sc, idx) in cands {
        let st = std::process::Command::new(&exe).arg(def.prop).args(["--seed", &seed.to_string(), "--single", &sc, &idx.to_string()]).env("VERIF_CHILD", "1").status().expect("spawn single");
        if !matches!(st.code(), Some(0..=2)) {
            let sig = format!("{}|abort|{}|{}", def.prop, sc, st.signal().map(|s| format!("signal {s}")).unwrap_or_else(|| "died".into()));
            let dir = format!("{}/replays", out);
            let _ = std::fs::create_dir_all(&dir);
            let path = format!("{}/{}-abort-{}-{}.json", dir, def.prop, sc, idx);
            let v = serde_json::json!({"property": def.prop, "scenario": sc, "seed": seed, "run_index": idx, "mode": "abort", "signature": sig,
                "message": format!("the process running scenario {sc} run {idx} was killed ({how}): abort / stack overflow / allocation failure in the code under test")});
            std::fs::write(&path, serde_json::to_string_pretty(&v).unwrap()).expect("write replay");
            println!("violation: process abort in scenario {sc} run {idx} ({how})");
            println!("signature: {sig}");
            println!("VIOLATION property={} replay={}", def.prop, path);
            reported = true;
        }
    }
    if reported {
        1
    } else {
        eprintln!("HARNESS-ERROR: child died ({how}) but no single run reproduces it");
        2
    }
}
