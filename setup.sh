#!/bin/bash
# Run once after a fresh restore, offline: builds the entropy shim and the simulator.
set -e
ROOT="$(cd "$(dirname "${BASH_SOURCE[0]}")" && pwd)"
export CARGO_NET_OFFLINE=true
export CARGO_TARGET_DIR="$ROOT/target"
export RUSTFLAGS="--cfg pallas_verif --cfg tokio_unstable"
unset CARGO_BUILD_RUSTFLAGS CARGO_ENCODED_RUSTFLAGS
mkdir -p "$ROOT/build" "$ROOT/evidence" "$ROOT/replays"
gcc -O2 -shared -fPIC -o "$ROOT/build/libverif_entropy.so" "$ROOT/shim/verif_entropy.c"
cd "$ROOT/sim" && cargo build --release --offline
echo "setup ok"
