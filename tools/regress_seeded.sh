#!/bin/bash
# tools/regress_seeded.sh — re-runs every kept change (seeded/*/patch.diff and mutants/*.diff) against the check of its
# property (quick tier) and prints one line each; every line should say "caught".
ROOT="$(cd "$(dirname "${BASH_SOURCE[0]}")/.." && pwd)"; cd "$ROOT"
declare -A MUT=( [c20_direction_bit]=C20 [c20_try_send_drops]=C20 [c21_txmonitor_peek]=C21 [c21_pool_drops_partial_chunks]=C21 [c23_revert_0]=C23 [c23_revert_1]=C23 [c23_revert_2]=C23 [c42_exact_beyond_tip_ok]=C42 [c43_secondary_unchecked_sub]=C43 [c43_chunk_unchecked_alloc]=C43 [c12_verify_half_off_by_one]=C12 [c13_split_slice_no_zeroize]=C13 [c39_no_copy_on_write]=C39 [c40_duplicate_inputs_kept]=C40 [net2_unix_short_write]=C22 )
run() { # <label> <diff> <check>
  out=$(tools/try_patch.sh "$2" "$3" quick 1500 2>&1)
  if echo "$out" | grep -q "^VIOLATION property=$3"; then echo "caught  $1 by $3: $(echo "$out" | grep '^signature:' | head -1 | cut -c12-120)"; else echo "MISSED  $1 by $3: $(echo "$out" | tail -2 | tr '\n' ' ' | cut -c1-200)"; fi
}
FILTER="${1:-.}"   # optional regex on the check id, e.g. 'C2[0-9]'
for d in seeded/*/; do id=$(basename $d); c=${id:0:3}; echo "$c" | grep -Eq "$FILTER" || continue; [ -f $d/patch.diff ] && run "seeded/$id" "$d/patch.diff" "$c"; done
for f in mutants/*.diff; do n=$(basename $f .diff); c=${MUT[$n]:-}; echo "$c" | grep -Eq "$FILTER" || continue; [ -n "$c" ] && run "mutants/$n" "$f" "$c" || echo "skip $n (no check mapped)"; done
