#!/bin/bash
# tools/determinism_sweep.sh [tier] [ids...] — runs every check twice in separate processes with different
# worker counts (16 and 5) and compares the all-runs digest (every run's trace hash and choice tape).
ROOT="$(cd "$(dirname "${BASH_SOURCE[0]}")/.." && pwd)"; cd "$ROOT"
TIER=${1:-quick}; shift
IDS="${@:-C09 C12 C13 C20 C21 C22 C23 C24 C25 C26 C27 C28 C29 C39 C40 C41 C42 C43}"
export VERIF_OUT=${VERIF_OUT:-/tmp/verif-det}; mkdir -p $VERIF_OUT; cp known_findings.json $VERIF_OUT/ 2>/dev/null
bad=0
for id in $IDS; do
  a=$(./check $id --tier $TIER --workers 16 2>&1 | grep "^$id tier" | tail -1)
  b=$(./check $id --tier $TIER --workers 5 2>&1 | grep "^$id tier" | tail -1)
  da=$(echo "$a" | grep -o "digest=[0-9a-f]*"); db=$(echo "$b" | grep -o "digest=[0-9a-f]*"); ra=$(echo "$a" | grep -o "runs=[0-9]*")
  if [ -n "$da" ] && [ "$da" = "$db" ]; then echo "same $id $ra $da"; else echo "DIFFERENT $id: [$a] vs [$b]"; bad=1; fi
done
exit $bad
