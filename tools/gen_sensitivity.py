#!/usr/bin/env python3
"""Annotates /verif/seeded/<id>/meta.json from the recorded check output (check_<ID>.txt) and rewrites the
sub-agent table of SENSITIVITY.md (between the table header and the 'Strengthening' paragraph)."""
import json, os, re, glob
ROOT = os.path.dirname(os.path.dirname(os.path.abspath(__file__)))
MISSED_FIRST = {  # id -> what was strengthened (hand-maintained)
    "C42": "absent exact points (real hash, slot too small / hash of another block) added to the generator",
    "C09": "fault kind huge_declared_length added",
    "C26": "list model tightened to the first occurrence of a duplicated point",
    "C20b": "the change sits in the socket-specific arm (`BearerWriteHalf::Unix`) that the simulated bearer replaces; batch `mux-kernel-unix-socketpair` added (both plexers on a kernel Unix socketpair with seeded SO_SNDBUF/SO_RCVBUF down to the kernel minimum, so segments larger than the free buffer space are taken in pieces)",
    "C29b": "peer-sharing replies never carried more than 50 distinct addresses; generators now produce up to 300 distinct addresses and conformant peers sometimes return the full amount asked for",
    "C26b": "the point alphabet had one hash per slot; now Origin, a block in slot 0 and two competing blocks per further slot",
    "C09c": "a bit flip rarely lands on the one era-tag byte of a block; fault kind discriminant_rewrite added (small unsigned integers near the start of an item - constructor tags, era numbers, variant indices - rewritten to other values)",
    "C23c": "the simulated keep-alive server always echoed the right cookie (treated as a don't-care); one response in four now carries a wrong cookie and must be refused without a state change",
    "C24c": "the per-state sweep offered every message variant with fresh field values only; it now also offers the last three messages of the session again (same cookie / body / peers as the state may hold)",
    "C25c": "reported by C21 as it stood (handshake-n2n/n2c:message-differs); C25 itself missed it because pallas' own client sends the proposal in one segment - a simulated initiator now delivers the Propose cut into several mux segments to the real Server::handshake in a third of the runs",
    "C42c": "an error for a slot-only point beyond the last immutable block was accepted as equivalent to the empty suffix; the unchanged tree always answers Ok(empty) there when the database holds blocks, so the oracle now demands it (and far-away slots up to u64::MAX are generated)",
    "C21d": "no workload ever dropped a pending recv_full_msg; receivers now give up waiting at seeded moments (possibly between two segments of one message) and call again - cancellation as a fault kind",
    "C22d": "reported by C21 as it stood (txsubmission:message-differs under cuts); C22 itself missed it because no stack-1 message of the zoo exceeded one mux segment - one body in thirty-two is now 60..140 kB, so the real muxer sends the message in several segments",
    "C23d": "no workload ever dropped a pending send; in a quarter of the high-level sends the future is now polled once and dropped if still pending - either nothing reached the peer and the agent has not moved, or the message is on the wire and the agent is in the successor state",
    "C25d": "the responder saw one connection per peer id; a third of the runs now start with an earlier connection of the same peer id that negotiated another table and ended with or without its Disconnected notice reaching the behaviour before the new Connected",
    "C09e": "Address::from_bytes only saw the addresses of (corrupted) real outputs and random slices of artefacts, never a pointer address whose varuint runs past the u64 range and is cut before its terminator; one generated address field per run now covers every header type with seeded continuation runs (0..17 bytes, 0xFF or random high-bit bytes), torn with or without terminator, truncated or over-long",
    "C12b": "histories ended at the refused update of the last period; they now continue (observations, signatures, restarts, further refused updates) on the exhausted key",
}
rows = []
for d in sorted(glob.glob(os.path.join(ROOT, "seeded", "*"))):
    sid = os.path.basename(d)
    mp = os.path.join(d, "meta.json")
    if not os.path.exists(mp):
        continue
    m = json.load(open(mp))
    sigs, exitline = [], ""
    for c in sorted(glob.glob(os.path.join(d, "check_*.txt"))):
        for line in open(c):
            if line.startswith("signature:"):
                s = line.split(":", 1)[1].strip()
                if s not in sigs:
                    sigs.append(s)
            if " tier=" in line and "exit=" in line:
                exitline = line.strip()
    caught = bool(sigs) or exitline.endswith("exit=1")
    status = "missed at first, caught after strengthening" if sid in MISSED_FIRST else "caught on the first run"
    if not caught:
        status = "NOT CAUGHT"
    m["detection_status"] = status
    m["caught_by"] = sigs
    m["confirmed_by_main_session"] = True
    if sid in MISSED_FIRST:
        m["strengthening"] = MISSED_FIRST[sid]
    json.dump(m, open(mp, "w"), indent=2)
    esc = lambda s: re.sub(r"\s+", " ", str(s)).replace("|", "/")
    rows.append("| %s | %s | %s | %s | %s |" % (sid, esc(m.get("summary", ""))[:150], esc(m.get("needs_to_manifest", ""))[:140], status, ", ".join(x.replace("|", "\\|") if False else x for x in sigs[:3])))
p = os.path.join(ROOT, "SENSITIVITY.md")
s = open(p).read()
head = "| id | change | needs | status | signature(s) reported |\n|---|---|---|---|---|\n"
a = s.index(head) + len(head)
b = s.index("\nStrengthening that came out of the misses:")
s = s[:a] + "\n".join(rows) + "\n" + s[b:]
a = s.index("Strengthening that came out of the misses:")
b = s.index("## My own mutants")
s = s[:a] + "Strengthening that came out of the misses:\n\n" + "".join("* **%s** — missed at first: %s.\n" % (k, v) for k, v in MISSED_FIRST.items()) + "* **C22** — caught (generator strengthened after reading the patch, before the first run): IPv4-mapped / unspecified / loopback / v4-compatible / link-local IPv6 classes and special IPv4 values were added to both stacks' address generators.\n\n" + s[b:]
open(p, "w").write(s)
print(len(rows), "rows;", sum("NOT CAUGHT" in r for r in rows), "not caught")
