#!/bin/bash
# tools/eval_seeded.sh <ID> <crate> [check-id ...]
# Confirms a sub-agent's seeded change in its scratch worktree /tmp/wt/<ID> (crate tests pass with
# the patch except the demo; demo passes without the patch), copies it to /verif/seeded/<ID>/, runs
# the listed checks against it in /repo (apply, run, restore) and removes the worktree.
ID="$1"; CRATE="$2"; shift 2; CHECKS="${@:-$ID}"
WT=/tmp/wt/$ID; ROOT="$(cd "$(dirname "${BASH_SOURCE[0]}")/.." && pwd)"
export CARGO_TARGET_DIR=$WT/target
cd $WT || exit 3
echo "== with patch: crate tests"
git -C $WT diff --stat -- . ':!SEEDED' | tail -3
cargo test -p $CRATE $FEATURES --offline --no-fail-fast 2>&1 | grep -E "^test result|FAILED|failed|^test .* FAILED|^error" | head -20 > $WT/SEEDED/with_patch.txt; cat $WT/SEEDED/with_patch.txt
echo "== without patch: crate tests"
git apply -R SEEDED/patch.diff || { echo "cannot revert patch"; exit 3; }
cargo test -p $CRATE $FEATURES --offline --no-fail-fast 2>&1 | grep -E "^test result|FAILED|failed|^error" | head -20 > $WT/SEEDED/without_patch.txt; cat $WT/SEEDED/without_patch.txt
git apply SEEDED/patch.diff
mkdir -p $ROOT/seeded/$ID && cp -r $WT/SEEDED/* $ROOT/seeded/$ID/
cd $ROOT
unset CARGO_TARGET_DIR
for C in $CHECKS; do
  echo "== check $C against the seeded change"
  tools/try_patch.sh $ROOT/seeded/$ID/patch.diff $C quick 900 | tee $ROOT/seeded/$ID/check_$C.txt
done
git -C /repo worktree remove --force $WT && echo "worktree removed"
