#!/bin/bash
# tools/run_all.sh [tier] [ids...] — runs every claimed check in /verif against /repo (writes /verif/evidence), prints one line per check.
ROOT="$(cd "$(dirname "${BASH_SOURCE[0]}")/.." && pwd)"; cd "$ROOT"
TIER=${1:-quick}; shift
IDS="${@:-C09 C12 C13 C20 C21 C22 C23 C24 C25 C26 C27 C28 C29 C39 C40 C41 C42 C43}"
if [ -n "$(git -C /repo status --porcelain)" ]; then echo "repo not clean"; exit 3; fi
for id in $IDS; do
  out=$(./check $id --tier $TIER 2>&1); rc=$?
  echo "rc=$rc $(echo "$out" | grep "^$id tier" | tail -1)"
  [ $rc -ne 0 ] && echo "$out" | grep -E "^(VIOLATION|violation:|signature:|HARNESS)" | cut -c1-300 | head -8
done
