#!/usr/bin/env python3
"""Generates /verif/MANIFEST.json from the table below (kept in one place so the
claimed list, the NA list and the commands never drift apart)."""
import json, os, subprocess
ROOT = os.path.dirname(os.path.dirname(os.path.abspath(__file__)))

CLAIMED = {
  "C39": dict(engine="E4 histsim", level="exploration", design="§4 C39, §1.2",
      technique="deterministic single-actor history simulation: seeded fixture sequences with aborting elements at seeded positions vs. fold(validate_tx) on a clone",
      text="Seeded sequences of Shelley-MA fixtures (payment, pool registration, delegation, MIR) under seeded environments and initial certificate states, with aborting elements (withheld UTxO, expired TTL, size limit, delegation before registration) at arbitrary positions; on Ok the caller's state must equal the in-order fold of validate_tx, on Err it must equal the state before the call.",
      note="validate_tx is the trusted per-transaction reference. No environment nondeterminism."),
  "C40": dict(engine="E4 histsim", level="exploration", design="§4 C40, §1.2",
      technique="deterministic single-actor history simulation of staging operations (with serde restart) followed by build; record model vs. independent CBOR walker over the built bytes",
      text="Histories of up to 30 staging operations over small pools (duplicates, removals, cancelling mints, redeemers for absent/late/removed targets, invalid network id) then build_conway_raw; every field the statement lists, the id (blake2b-256 of the located body bytes) and every redeemer pointer (position in the sorted duplicate-free target set) are compared with the model; building must not panic.",
      note="Builds the builder refuses are not judged. One KNOWN-FINDING: todo!() for redeemers without ex-units."),
  "C12": dict(engine="E4 histsim", level="exploration", design="§4 C12, §1.2",
      technique="deterministic single-actor history simulation: seeded evolve/sign/verify/restart histories over all 14 KES types vs. period counter + independently derived public key",
      text="Every run walks one KES key from period 0 to exhaustion with seeded interleaving of sign+verify (must verify at the current period only: all other periods for depth <= 4, sampled ones for 5..7), byte round-trips, persist-and-reload restarts and period/public-key checks; update must fail exactly at the last period.",
      note="No environment nondeterminism exists for this property; the simulator contributes history generation, restart injection, reference model, minimisation and exact replay only. Shares blake2b/Ed25519 with the oracle."),
  "C13": dict(engine="E4 histsim", level="exploration", design="§4 C13, §1.2",
      technique="deterministic single-actor history simulation with key-buffer disclosure injected after every step; forbidden-set oracle from an independent seed-tree derivation",
      text="The same histories; after every step the whole key buffer is read and searched, at every byte offset, for the Ed25519 signing key of any past period and for the seed of any tree node whose subtree starts in the past (independent blake2b(1|s)/blake2b(2|s) derivation).",
      note="Inspects only the buffer the API owns (no stack copies, no caller seed buffer). Single actor."),
  "C09": dict(engine="E1 netsim1 + E2 p2psim", level="exploration", design="§4 C09",
      technique="deterministic simulation of a corrupting transport / disk (bit flip, overwrite, splice, truncate, CBOR length corruption, garbage, nesting, foreign-protocol payload; in flight and at rest) in front of the real demuxers and decoders; crash-supervised child",
      text="A conformant simulated peer streams generated legal messages of every protocol of both stacks, and every block / transaction / header artefact of test_data framed as protocol replies, through a seeded corrupting transport; the real demuxer, typed message decoders, AnyMessage::from_payload (whose output is fed into both behaviours), MultiEraBlock/Tx/Header/Output::decode and Address::from_bytes consume whatever arrives. Oracle: no panic in a decode entry point, no process abort, termination by EOF.",
      note="Only decode entry points are judged; accessor panics on decoded values are counted, not reported. Address string parsers are out of scope. Samples the mutation space."),
  "C23": dict(engine="E1 netsim1", level="exploration", design="§4 C23, Appendix A",
      technique="deterministic simulation of a real agent vs. a simulated (spec-driven, partly Byzantine) peer over two real multiplexers on seeded pipes; per-state sweep of every message through send_message/recv_message plus high-level moves judged by spec automata",
      text="21 protocol x role agents of the original stack converse for up to 40 steps with a simulated peer; at each reached state every message variant is offered to send_message and delivered to recv_message (verdict must match the spec's agency/transition table, accepted sends must reach the peer unchanged, raw calls must not move the state), then a legal or illegal move is taken through the high-level API and the resulting state compared with the spec successor.",
      note="21 agents incl. the N2C instantiations; agents with private raw API are judged through high-level methods only. Keep-alive responses carry a wrong cookie in a quarter of the cases (must be refused without a state change). Six KNOWN-FINDING signatures (tx-monitor single Busy state)."),
  "C26": dict(engine="E4 histsim + E1 netsim1", level="exploration", design="§4 C26",
      technique="deterministic history simulation vs. Vec<Point> reference model; plus two-node chain-sync simulation with a forking producer feeding the real client and buffer",
      text="Operation histories (<= 200 ops over 2..9 points, forcing duplicates and misses) are applied to the real RollbackBuffer and a list model compared after every step; a second batch obtains the roll-forward/backward history from a simulated forking chain-sync server through the real N2NClient over real multiplexers.",
      note="The list model rolls back to the first occurrence of a duplicated point (Vec::position, what RollbackBuffer::position documents). Alphabet: Origin, a block in slot 0, two competing blocks per further slot."),
  "C42": dict(engine="E3 disksim", level="exploration", design="§4 C42, Appendix B",
      technique="deterministic simulation of a writer model of cardano-node's ImmutableDB interleaved with the real reader; single-copy-log reference model",
      text="Per run a seeded database is written into a tmpfs directory by a model of the node's append path (real blocks, seeded chunk boundaries, empty slots, chunk numbers); reader operations run while the writer appends / finalises / opens chunks between reader steps; results are compared with a single-copy log of the immutable chunks at listing time (full read, tip, exact / fuzzy / absent points, Origin).",
      note="A slot-only point beyond the last immutable block must give Ok(empty) when the database holds blocks. Block metadata of the model comes from MultiEraBlock::decode. A genesis-rooted chain built from genesis.block + Byron block artefacts makes the Origin success path reachable. Known findings: slot-only point before the first block; empty immutable chunk files."),
  "C43": dict(engine="E3 disksim", level="fault_enumeration", design="§4 C43",
      technique="deterministic fault injection on the simulated disk state (torn/short/lost/zero-length files, garbled offsets, bit flips) with crash-supervised child process and address-space limit",
      text="Seeded databases receive truncations at seeded byte offsets (sweep batch: one truncation per run), lost and zero-length files, garbled primary/secondary offsets and bit flips; all reader operations then run and every yielded block is decoded. Oracle: no panic, no process abort (the check runs in a supervised child under RLIMIT_AS, aborts are attributed to the run via per-worker breadcrumbs), bounded output.",
      note="Faults are state faults on files; syscall-level errors (EIO/EINTR/short reads on std::fs::File) cannot be injected without rewriting the reader."),
  "C21": dict(engine="E1 netsim1", level="fault_enumeration", design="§4 C21",
      technique="deterministic simulation: simulated sender cutting message streams at seeded/enumerated split points and interleaving protocols, real demuxer and reassembly on a seeded pipe (short reads, stalls, delays)",
      text="For every protocol/message variant of both stacks a simulated sender cuts the concatenated encodings at split points (all cut masks sampled for streams <= 12 bytes; all-1-byte, every single offset, message-boundary and near-boundary, dense and random cut sets otherwise), interleaves other protocols' segments and feeds the real reassembly code; the messages yielded must equal those sent, in order, with no error and no left-over (sentinel / empty partial map).",
      note="Split points are sampled per run, not exhaustively enumerated for long streams; zero-length segments are not generated. Two batches run the real TcpConnectionPool receive loop (hook H3) against nodes that re-segment and interleave their replies; one batch reads through the real Bearer::Unix arm over a kernel socketpair."),
  "C22": dict(engine="E1 netsim1", level="exploration", design="§4 C22",
      technique="deterministic simulation of a message zoo crossing the real muxers/bearers; on-wire judgement by an independent strict RFC 8949 walker plus decode-and-compare at the receiving agent",
      text="Generated messages of every variant of every protocol of both stacks are encoded by the real encoders, walked by an independent strict CBOR parser (single item, declared lengths satisfied), decoded back and compared, then carried through the real muxer/demuxer (or write_message/read_full_msgs) over a seeded pipe and compared again. Per-variant counters must be non-zero.",
      note="Values come from the workload generator (wire-representable combinations, block-sized bodies included). One batch carries the stack-2 zoo over a kernel Unix socketpair (real Bearer::Unix arms). Four KNOWN-FINDING signatures: localtxsubmission reject-reason encoders."),
  "C20": dict(engine="E1 netsim1", level="exploration", design="§4 C20, §2.2",
      technique="deterministic simulation of two real Plexers on a paused single-thread tokio runtime over seeded in-memory pipes (stall/delay/short-read/partial-write/back-pressure schedules); per-stream FIFO exactly-once history oracle + bounded-liveness watchdog",
      text="Seeded schedules of up to 6 agents x 200 uniquely stamped chunks (sizes 0..65535) through two real multiplexers; every pipe poll and task poll is a scheduling point decided by the run's PRNG; each endpoint must receive exactly its counterpart's chunks in order and nothing else, and the run must quiesce before the simulated-time watchdog.",
      note="Single-threaded await-granularity interleavings only (no memory-model races). Socket replaced by SimPipe behind hook H1 in two batches; a third joins the plexers by a kernel Unix socketpair (real Bearer::Unix arms, seeded SO_SNDBUF/SO_RCVBUF) whose buffer accounting the simulator does not own (determinism observed by the double-run guard and the all-runs digest). Tcp arms never run. tokio's mpsc/time/scheduler are real."),
  "C25": dict(engine="E2 p2psim + E1 netsim1", level="exploration", design="§4 C25",
      technique="deterministic simulation of two negotiating nodes with seeded version tables; negotiation oracle (spec::negotiate) on the responder's reply",
      text="Seeded table pairs (0..16 versions, overlapping/disjoint, equal/different magics and data shapes) are negotiated by the real responders of both stacks; an accepted version must be common, the highest common one, with agreeing magic; disjoint tables must be refused with VersionMismatch listing the responder's versions.",
      note="A refusal while a common version exists is allowed (statement constrains acceptances and the disjoint case). In a third of the stack-1 runs a simulated initiator delivers the Propose cut into several mux segments."),
  "C27": dict(engine="E2 p2psim", level="exploration", design="§4 C27, §2.3",
      technique="deterministic discrete-event simulation of InitiatorBehavior vs. simulated interface and peers with fault injection (connect failure, reset, Byzantine messages); set/limit/ban invariants after every step",
      text="Seeded histories of commands, housekeeping passes and interface events (faithful connection model, 1..3 and 1..20 peers, small limits) drive the real InitiatorBehavior; after every step the four promotion sets are checked for disjointness and limits, the banned set for monotonicity, and every Connect output is checked, at the instant it is produced, against the set of peers banned so far.",
      note="Trusts the simulated interface's event-order rules (DESIGN §2.3) and that polling the outbound queue is side-effect free. Manager is replaced by the seeded loop in this check. BanPeer of an untracked peer is not judged."),
  "C28": dict(engine="E2 p2psim", level="exploration", design="§4 C28, §2.3",
      technique="deterministic simulation with seeded delay of Sent/Recv confirmations relative to housekeeping and commands; wire monitor (spec automata) judging every emitted message against emitted+received history",
      text="Seeded schedules interleave commands, repeated housekeeping, output hand-over, Sent/Recv/Error/Disconnected delivery and replies of conformant simulated responders; each Send output is judged when produced against the spec state implied by all messages previously emitted to and received from that peer; a responder-side automaton cross-checks at dispatch. Lock-step sub-batches (no in-flight emissions) keep the rest of the space judged despite the known update-on-Sent defect; two further batches run the real Manager + TcpInterface/TcpConnectionPool over seeded pipes (hooks H2/H3) against simulated nodes that judge every message read off the wire.",
      note="Trusts spec::proto and the event-order rules of the simulated interface. Eight KNOWN-FINDING signatures (one root cause: emitters decide on the Sent-confirmed state) are stepped over by resetting the connection."),
  "C29": dict(engine="E2 p2psim", level="exploration", design="§4 C29",
      technique="deterministic simulation of both behaviours under Byzantine peers and an unconstrained interface-event alphabet; panic capture with minimised replay",
      text="Histories of up to 300 events: faithful connection model with Byzantine peers and faults (initiator), and any interface event for any peer in any order interleaved with every command (initiator and responder). Oracle: no panic, the output stream stays pollable and bounded.",
      note="Built with overflow checks on. Samples histories; no exhaustive bound."),
  "C24": dict(engine="E2 p2psim", level="exploration", design="§4 C24, Appendix A",
      technique="deterministic simulation of two-party message histories (conformant + Byzantine senders) against spec automata; per-state single-step sweep of every message variant",
      text="Seeded sessions of simulated peers drive the real State::apply of all 8 P2P protocols; at every reached state every message variant is applied and verdict, successor class and carried data are compared with a spec automaton written from the Ouroboros specification. All (state, message) pairs of the finite tables are reached in every tier; histories are sampled.",
      note="Trusts the transcription of the specification in sim/src/spec/proto.rs (Leios automata: module docs only). Value-level side conditions are don't-care, but the last messages of a session are offered again at every state (acceptance must not depend on a payload equal to the state's)."),
  "C41": dict(engine="E4 histsim", level="exploration", design="§4 C41",
      technique="deterministic single-actor history simulation: seeded sign/add/remove/serde-restart sequences vs. BTreeMap reference model, minimised replayable tape",
      text="Seeded search over operation histories on real BuiltTransaction values; after every step an independent CBOR walker compares the witness set with the signature map and the reference model, checks body/id stability and verifies signatures. Sampling, not proof; no environment nondeterminism exists for this property, so the simulator contributes only history generation, restart injection, model comparison, minimisation and exact replay.",
      note="Trusts blake2b/ed25519 of pallas-crypto (used on both sides) and the hand-written strict CBOR walker. Single actor; no scheduler/clock/transport."),
}

PENDING = {}  # id -> reason while a claimed check is still being built

NA = {
 "C01": "Flat encoder/decoder are in-memory functions of a value sequence; bit alignment depends on the values written, not on any schedule, stream, clock or fault.",
 "C02": "Totality of a slice decoder on arbitrary bytes; the bytes never arrive through a transport or incremental reader the code owns — pure input fuzzing, not simulation.",
 "C03": "CBOR helper wrappers are pure codecs; mutate-then-re-encode is a two-call function of the value.",
 "C04": "Decode-time range check of a pure decoder.",
 "C05": "Hash of retained original bytes is a pure function of the input bytes.",
 "C06": "Pure codecs over a static corpus and generated values; no schedule, fault or history dimension.",
 "C07": "Pure codec plus order laws on values.",
 "C08": "Pure hash formula over a witness set and cost models.",
 "C10": "Hasher/Hash/nonce are pure; 'however it is split' is the caller's chunking of an argument, not transport behaviour.",
 "C11": "Pure Ed25519 operations on in-memory values.",
 "C14": "Pure byte comparison functions (the property is about results, not timing).",
 "C15": "Pure fixed-point arithmetic.",
 "C16": "Pure fixed-point arithmetic.",
 "C17": "Pure fixed-point arithmetic.",
 "C18": "Pure address codec.",
 "C19": "Pure address codec.",
 "C30": "Pure traversal of a decoded block/transaction.",
 "C31": "Pure traversal of a decoded block/transaction.",
 "C32": "Pure slot/epoch arithmetic; 'wall-clock' is a computed value, no clock is read.",
 "C33": "Phase-1 validation is a pure function of (tx, UTxO, parameters); no ordering, timing or failure point inside one validation.",
 "C34": "Phase-1 validation is a pure function of (tx, UTxO, parameters).",
 "C35": "Phase-1 validation is a pure function of (tx, UTxO, parameters).",
 "C36": "Phase-1 validation is a pure function of (tx, UTxO, parameters).",
 "C37": "Phase-1 validation is a pure function of (tx, UTxO, parameters).",
 "C38": "Phase-1 validation is a pure function of (tx, UTxO, parameters).",
 "C44": "Pure mapping of decoded ledger data to protobuf structs.",
}

def main():
    props = [json.loads(l)["id"] for l in open(os.path.join(ROOT, "properties.jsonl"))]
    checks = []
    for pid in props:
        if pid in CLAIMED:
            c = CLAIMED[pid]
            checks.append({
                "property_id": pid,
                "quick_cmd": f"./check {pid} --tier quick",
                "thorough_cmd": f"./check {pid} --tier thorough",
                "evidence_file": f"/verif/evidence/{pid}.json",
                "replay_cmd_template": f"./check {pid} --replay {{path}}",
                "engine": c["engine"],
                "level_claimed": {"category": c["level"], "text": c["text"], "design_ref": c["design"]},
                "level_note": c["note"],
                "technique": c["technique"],
            })
    na = []
    for pid in props:
        if pid in CLAIMED: continue
        if pid in NA: na.append({"property_id": pid, "reason": "not applicable to deterministic simulation: " + NA[pid]})
        elif pid in PENDING: na.append({"property_id": pid, "reason": PENDING[pid]})
        else: raise SystemExit(f"{pid} neither claimed nor NA")
    try:
        commits = subprocess.check_output(["git","-C","/repo","log","--format=%h %s","4b38edef..HEAD"], text=True).strip().splitlines()
    except Exception:
        commits = []
    hooks = [c.split()[0] for c in commits if c.split(" ",1)[1].startswith("verif-hook")]
    m = {
      "version": 1,
      "setup_cmd": "./setup.sh",
      "hooks": {
        "guard": "pallas_verif",
        "enable": "RUSTFLAGS='--cfg pallas_verif --cfg tokio_unstable' (set in /verif/.cargo/config.toml; the simulator crate /verif/sim depends on the pallas crates by path into /repo)",
        "baseline_off_cmd": "cd /repo && cargo nextest run --workspace --no-fail-fast --tool-config-file pb:/w/lib/nextest.toml --profile pb --test-threads 8 --offline || cargo test --workspace --no-fail-fast --offline",
        "source_commits": hooks,
        "add_only": True,
      },
      "engines": [
        {"name": "E1 netsim1", "path": "/verif/sim/src/engines/netsim1", "serves_properties": [p for p in CLAIMED if CLAIMED[p]["engine"].startswith("E1")], "kind_free_text": "pallas-network Plexer/agents on a paused current-thread tokio runtime over seeded in-memory pipes (hook H1)"},
        {"name": "E2 p2psim", "path": "/verif/sim/src/engines/p2psim", "serves_properties": [p for p in CLAIMED if CLAIMED[p]["engine"].startswith("E2")], "kind_free_text": "pallas-network2 behaviours driven through the Interface seam by a seeded discrete-event loop with simulated (conformant/Byzantine) peers"},
        {"name": "E3 disksim", "path": "/verif/sim/src/engines/disksim", "serves_properties": [p for p in CLAIMED if CLAIMED[p]["engine"].startswith("E3")], "kind_free_text": "writer model of cardano-node ImmutableDB with crash/torn/lost/garbled files, interleaved with the real pallas-hardano reader"},
        {"name": "E4 histsim", "path": "/verif/sim/src/props", "serves_properties": [p for p in CLAIMED if CLAIMED[p]["engine"].startswith("E4")], "kind_free_text": "single-actor operation-history simulation against reference models, restart as an operation"},
      ],
      "checks": checks,
      "not_applicable": na,
      "notes": "All checks: ./check <id> --tier quick|thorough; VERIF_SEED selects the base seed (default 20260921); exit 2 = harness error (never a verdict). See DESIGN.md.",
    }
    json.dump(m, open(os.path.join(ROOT, "MANIFEST.json"), "w"), indent=1)
    print(f"claimed {len(checks)}  not_applicable {len(na)}")
if __name__ == "__main__":
    main()
