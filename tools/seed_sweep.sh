#!/bin/bash
# tools/seed_sweep.sh <first_seed> <last_seed> [tier] [ids...] — runs every check on several base seeds; any exit != 0 is printed.
ROOT="$(cd "$(dirname "${BASH_SOURCE[0]}")/.." && pwd)"; cd "$ROOT"
A=$1; B=$2; TIER=${3:-quick}; shift 3
IDS="${@:-C09 C12 C13 C20 C21 C22 C23 C24 C25 C26 C27 C28 C29 C39 C40 C41 C42 C43}"
export VERIF_OUT=${VERIF_OUT:-/tmp/verif-sweep}; mkdir -p $VERIF_OUT
for s in $(seq $A $B); do for id in $IDS; do
  out=$(VERIF_SEED=$s ./check $id --tier $TIER 2>&1); rc=$?
  line=$(echo "$out" | grep "^$id tier" | tail -1)
  if [ $rc -ne 0 ]; then echo "NONZERO seed=$s $id rc=$rc"; echo "$out" | grep -E "^(VIOLATION|violation:|signature:|HARNESS)" | cut -c1-300 | head -8; else echo "ok seed=$s $line" | cut -c1-160; fi
done; done
