#!/bin/bash
# tools/rehearse_thorough.sh [ids...] — for `vp run --with-repo`: points the simulator crate at the snapshot of /repo
# ($VP_RUN_REPO) so that /repo itself stays free, then runs every thorough command once. Not evidence.
ROOT="$(cd "$(dirname "${BASH_SOURCE[0]}")/.." && pwd)"; cd "$ROOT"
if [ -n "${VP_RUN_REPO:-}" ]; then sed -i "s#\"/repo/#\"$VP_RUN_REPO/#g" sim/Cargo.toml; fi
IDS="${@:-C09 C12 C13 C20 C21 C22 C23 C24 C25 C26 C27 C28 C29 C39 C40 C41 C42 C43}"
for id in $IDS; do
  t0=$(date +%s)
  out=$(./check $id --tier thorough 2>&1); rc=$?
  echo "rc=$rc secs=$(( $(date +%s) - t0 )) $(echo "$out" | grep "^$id tier" | tail -1)"
  [ $rc -ne 0 ] && echo "$out" | grep -E "^(VIOLATION|violation:|signature:|HARNESS|determinism)" | cut -c1-300 | head -12
done
