#!/bin/bash
# tools/try_patch.sh <patch.diff> <PROPERTY> [tier] [timeout_s]
# Applies a patch to /repo, runs one check, ALWAYS restores /repo. Prints the verdict line.
# Uses a separate evidence/replay root so committed evidence is not overwritten.
P="$(realpath "$1")"; ID="$2"; TIER="${3:-quick}"; TMO="${4:-600}"
ROOT="$(cd "$(dirname "${BASH_SOURCE[0]}")/.." && pwd)"
if [ -n "$(git -C /repo status --porcelain)" ]; then echo "repo not clean"; exit 3; fi
trap 'git -C /repo checkout -- . 2>/dev/null' EXIT
git -C /repo apply "$P" || { echo "patch does not apply"; exit 3; }
mkdir -p /tmp/verif-mut/evidence /tmp/verif-mut/replays
cp "$ROOT/known_findings.json" /tmp/verif-mut/
( cd "$ROOT" && VERIF_OUT=/tmp/verif-mut timeout "$TMO" ./check "$ID" --tier "$TIER" 2>&1 | grep -E "^(VIOLATION|violation:|signature:|KNOWN|HARNESS|$ID tier)" | cut -c1-260 | tail -40 )
echo "exit=${PIPESTATUS[0]}"
